package main

import (
	"encoding/json"
	"fmt"
	"os"
	"path/filepath"
	"time"

	"verif/engine/symgo"
)

// cmdSelftest validates the interpreter on the repository's own test inputs
// (Serval-style): every spec example embedded in /repo/internal/spec is run through
// the symbolic interpreter in concrete mode (one path, the example's bytes as the
// model) and through the natively compiled package; the digests (tree dumps, HTML in
// seven configurations, streaming parse, Format output) must be byte-identical.
// Exit 0 when all agree, 2 otherwise.
func cmdSelftest(args []string) {
	verif := defaultVerifDir
	t0 := time.Now()
	data, err := os.ReadFile(filepath.Join(repoDir, "internal", "spec", "spec-0.30.json"))
	if err != nil {
		fmt.Println("selftest: cannot read the spec examples:", err)
		os.Exit(2)
	}
	var examples []struct {
		Markdown string `json:"markdown"`
		HTML     string `json:"html"`
		Example  int    `json:"example"`
	}
	if err := json.Unmarshal(data, &examples); err != nil {
		fmt.Println("selftest:", err)
		os.Exit(2)
	}
	prog := loadProgram(verif)
	pool := symgo.NewPool(prog, 1, 20000, nil)
	defer pool.Close()
	bad := 0
	for _, hp := range []struct{ pkg, h string }{{pkgCM, "H_SELF"}, {pkgFmt, "H_SELF_format"}} {
		var cases []ReplayCase
		var engine []symgo.Sample
		for _, ex := range examples {
			model := make([]uint64, len(ex.Markdown))
			for i := 0; i < len(ex.Markdown); i++ {
				model[i] = uint64(ex.Markdown[i])
			}
			params := []int64{int64(len(ex.Markdown)), 0}
			cfg := &symgo.Config{Prog: prog, Pool: pool, Pkg: hp.pkg, Harness: hp.h, Params: params, Workers: 1,
				InitModel: model, SinglePath: true, SampleN: 1, Seed: 1}
			res := symgo.Explore(cfg)
			if len(res.Samples) != 1 {
				fmt.Printf("SELFTEST-FAIL %s example %d: interpreter outcome %v unsupported=%v\n", hp.h, ex.Example, res.Outcomes, res.Unsupported)
				bad++
				engine = append(engine, symgo.Sample{Outcome: "none"})
			} else {
				engine = append(engine, res.Samples[0])
			}
			cases = append(cases, ReplayCase{Harness: hp.h, Params: params, Model: model})
		}
		native, err := nativeReplay(verif, hp.pkg, cases, "selftest")
		if err != nil {
			fmt.Println("selftest: native run failed:", err)
			os.Exit(2)
		}
		agree := 0
		for i := range cases {
			if engine[i].Outcome == native[i].Outcome && string(engine[i].Digest) == string(native[i].Digest) {
				agree++
				continue
			}
			bad++
			if bad <= 5 {
				fmt.Printf("SELFTEST-MISMATCH %s example %d input=%q\n engine: %s %q\n native: %s %q\n", hp.h, examples[i].Example, examples[i].Markdown,
					engine[i].Outcome, trunc(string(engine[i].Digest), 300), native[i].Outcome, trunc(string(native[i].Digest), 300))
			}
		}
		fmt.Printf("selftest %s: %d/%d spec examples agree between the interpreter and the native build\n", hp.h, agree, len(cases))
	}
	os.Remove(filepath.Join(verif, "work"))
	fmt.Printf("selftest done in %.1fs\n", time.Since(t0).Seconds())
	if bad > 0 {
		os.Exit(2)
	}
}
