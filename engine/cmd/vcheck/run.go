package main

import (
	"bufio"
	"encoding/json"
	"fmt"
	"os"
	"path/filepath"
	"regexp"
	"sort"
	"strconv"
	"strings"
	"time"

	"verif/engine/symgo"
)

// JobSpec is one bounded exploration of one harness.
type JobSpec struct {
	Pkg     string
	Harness string
	Params  []int64
	Bound   string // human description of the bound
	Tier    string // "quick": both tiers; "thorough": thorough only
	Panic   string // clause under which uncaught panics are violations ("" = recorded only)
	Budget  string // clause under which step-budget exhaustion is a violation
	Cert    int    // partition certificate component bits (0 = off)
	Steps   int64
}

// lateJob: the unconstrained F(4) bounds are by far the most expensive ones of the
// thorough tier; they run after everything else so that the time budget is spent on
// them last and the cheaper bounds are never starved.
func lateJob(js *JobSpec) bool {
	if js.Tier != "thorough" || len(js.Params) < 2 {
		return false
	}
	switch js.Harness {
	case "H_C02", "H_C03", "H_C05", "H_C13", "H_C04", "H_C16", "H_C12_closure", "H_C14_eol", "H_C14_final", "H_C09_quote", "H_C09_quote_bare", "H_C19":
		if js.Params[0] == 1 && js.Params[1] == 41 {
			return true // TL[41] is '<' + four free bytes: as expensive as F(4)
		}
		return js.Params[0] == 0 && js.Params[1] >= 4
	case "H_C01_F", "H_C07", "H_C10", "H_C04_format", "H_C19_format", "H_C20_total":
		return js.Params[0] >= 4 && js.Params[0] < 100
	}
	return false
}

type PropSpec struct {
	ID          string
	Level       string
	Jobs        []JobSpec
	Assumptions []string
	Explanation string
	QuickSec    int
	ThoroughSec int
}

type knownFinding struct {
	Property, Clause, Harness string
	Params                    string // "" = any; otherwise the job parameters, comma separated
	Pattern                   *regexp.Regexp
	What                      string
	Raw                       string
}

func loadKnown(verifDir string) ([]knownFinding, []string) {
	f, err := os.Open(filepath.Join(verifDir, "known_findings.txt"))
	if err != nil {
		return nil, nil
	}
	defer f.Close()
	var ks []knownFinding
	var fixed []string
	sc := bufio.NewScanner(f)
	sc.Buffer(make([]byte, 1<<20), 1<<20)
	for sc.Scan() {
		line := strings.TrimSpace(sc.Text())
		if line == "" || strings.HasPrefix(line, "#") {
			continue
		}
		if strings.HasPrefix(line, "fixed:") {
			fixed = append(fixed, line)
			continue
		}
		if !strings.HasPrefix(line, "known:") {
			continue
		}
		k := knownFinding{Raw: line}
		rest := strings.TrimSpace(line[len("known:"):])
		// layout: key=value ... pattern=<regex, may contain spaces> what=<free text>
		if w := strings.Index(rest, " what="); w >= 0 {
			k.What = rest[w+len(" what="):]
			rest = rest[:w]
		}
		if pi := strings.Index(rest, " pattern="); pi >= 0 {
			pat := rest[pi+len(" pattern="):]
			rest = rest[:pi]
			re, err := regexp.Compile("^(?s:" + pat + ")$")
			if err != nil {
				fmt.Fprintf(os.Stderr, "known_findings: bad pattern %q: %v\n", pat, err)
			} else {
				k.Pattern = re
			}
		}
		for _, f := range strings.Fields(rest) {
			eq := strings.IndexByte(f, '=')
			if eq < 0 {
				continue
			}
			switch f[:eq] {
			case "property":
				k.Property = f[eq+1:]
			case "clause":
				k.Clause = f[eq+1:]
			case "harness":
				k.Harness = f[eq+1:]
			case "params":
				k.Params = f[eq+1:]
			}
		}
		if k.Property != "" && k.Clause != "" && k.Pattern != nil {
			ks = append(ks, k)
		}
	}
	return ks, fixed
}

func latin1(b []byte) string {
	r := make([]rune, len(b))
	for i, c := range b {
		r[i] = rune(c)
	}
	return string(r)
}

type jobReport struct {
	Harness    string           `json:"harness"`
	Params     []int64          `json:"params"`
	Bound      string           `json:"bound"`
	Paths      int64            `json:"paths"`
	Exhausted  bool             `json:"exhausted"`
	Pending    int              `json:"pending_jobs"`
	Queries    int64            `json:"solver_queries"`
	CacheHits  int64            `json:"cache_hits"`
	Sat        int64            `json:"sat"`
	Unsat      int64            `json:"unsat"`
	Unknown    int64            `json:"unknown"`
	CheckQ     int64            `json:"assertion_queries"`
	SolverSec  float64          `json:"solver_s"`
	WallSec    float64          `json:"wall_s"`
	Outcomes   map[string]int64 `json:"outcomes"`
	Clauses    map[string]int64 `json:"clause_reach"`
	Unsupp     map[string]int64 `json:"unsupported,omitempty"`
	Panics     map[string]int64 `json:"panics,omitempty"`
	Known      map[string]int64 `json:"known_finding_hits,omitempty"`
	NewViol    int64            `json:"new_violations"`
	CertSum    string           `json:"partition_certificate_sum,omitempty"`
	CertUncnt  int64            `json:"partition_uncounted_paths,omitempty"`
	MaxSteps   int64            `json:"max_steps"`
	Validated  int              `json:"native_validated"`
	Mismatches int              `json:"native_mismatches"`
	Skipped    string           `json:"skipped,omitempty"`
	CrossChk   int64            `json:"cross_checked_queries,omitempty"`
	CrossBad   int64            `json:"cross_check_disagreements,omitempty"`
}

func runProperty(verifDir string, spec *PropSpec, tier string, seed int64, workers int) int {
	t0 := time.Now()
	budget := time.Duration(spec.QuickSec) * time.Second
	if tier == "thorough" {
		budget = time.Duration(spec.ThoroughSec) * time.Second
	}
	if budget == 0 {
		budget = 150 * time.Second
		if tier == "thorough" {
			budget = 25 * time.Minute
		}
	}
	deadline := t0.Add(budget)
	known, _ := loadKnown(verifDir)
	prog := loadProgram(verifDir)
	pool := symgo.NewPool(prog, workers, 20000, nil)
	defer pool.Close()

	var reports []jobReport
	var newViol []*symgo.Violation
	knownSeen := map[string]int64{}
	knownSample := map[string]*symgo.Violation{}
	funcs := map[string]int{}
	var totalPaths, totalQueries, totalSolverQ int64
	var solverTime time.Duration
	allExhausted := true
	var crossChecked, crossBad int64
	type smp struct {
		job int
		s   symgo.Sample
	}
	var samples []smp
	var evidenceSamples []any
	skippedUnits := []string{}

	var order []int
	for pass := 0; pass < 2; pass++ {
		for ji := range spec.Jobs {
			if lateJob(&spec.Jobs[ji]) == (pass == 1) {
				order = append(order, ji)
			}
		}
	}
	for _, ji := range order {
		js := spec.Jobs[ji]
		if js.Tier == "thorough" && tier != "thorough" {
			continue
		}
		rep := jobReport{Harness: js.Harness, Params: js.Params, Bound: js.Bound}
		pkg := prog.Pkgs[js.Pkg]
		if pkg == nil || pkg.Func(js.Harness) == nil {
			rep.Skipped = "harness not found"
			if len(droppedUnits) > 0 {
				rep.Skipped = "unit harness skipped: its file does not type-check against the current tree"
			}
			skippedUnits = append(skippedUnits, js.Harness)
			fmt.Printf("INCOMPLETE property=%s bound=%q skipped: %s\n", spec.ID, js.Bound, rep.Skipped)
			reports = append(reports, rep)
			allExhausted = false
			continue
		}
		if time.Now().After(deadline) {
			rep.Skipped = "time budget exhausted before this bound was started"
			fmt.Printf("INCOMPLETE property=%s bound=%q not started (time budget)\n", spec.ID, js.Bound)
			reports = append(reports, rep)
			allExhausted = false
			continue
		}
		cfg := &symgo.Config{Prog: prog, Pool: pool, Pkg: js.Pkg, Harness: js.Harness, Params: js.Params, Workers: workers,
			PanicClause: js.Panic, BudgetClause: js.Budget, Cert: js.Cert, Seed: seed + int64(ji), SampleN: 48, Deadline: deadline,
			StepBudget: js.Steps, MaxNewViol: 6}
		if tier == "thorough" {
			cfg.Cross = 997
		}
		cfg.Classify = func(v *symgo.Violation) string {
			s := latin1(v.Bytes())
			for i := range known {
				k := &known[i]
				if k.Property != spec.ID || k.Clause != v.Clause {
					continue
				}
				if k.Harness != "" && k.Harness != v.Harness {
					continue
				}
				if k.Params != "" {
					ps := make([]string, len(v.Params))
					for i, p := range v.Params {
						ps[i] = strconv.FormatInt(p, 10)
					}
					if strings.Join(ps, ",") != k.Params {
						continue
					}
				}
				if k.Pattern.MatchString(s) {
					return k.Raw
				}
			}
			return ""
		}
		res := symgo.Explore(cfg)
		rep.Paths, rep.Exhausted, rep.Pending = res.Paths, res.Exhausted, res.Pending
		rep.Queries, rep.CacheHits, rep.Sat, rep.Unsat, rep.Unknown, rep.CheckQ = res.Queries, res.CacheHits, res.SatN, res.UnsatN, res.UnknownN, res.CheckQ
		rep.SolverSec, rep.WallSec = res.SolverTime.Seconds(), res.Wall.Seconds()
		rep.Outcomes, rep.Clauses, rep.Unsupp, rep.Panics, rep.Known, rep.NewViol = res.Outcomes, res.ClauseReach, res.Unsupported, res.PanicMsgs, res.KnownHits, res.NewViol
		rep.MaxSteps = res.MaxSteps
		rep.CrossChk, rep.CrossBad = res.CrossChecked, res.CrossDisagree
		crossChecked += res.CrossChecked
		crossBad += res.CrossDisagree
		if res.CertSum != nil {
			rep.CertSum = res.CertSum.RatString()
			rep.CertUncnt = res.CertUncounted
			if res.Exhausted && res.CertUncounted == 0 && res.CertSum.RatString() != "1" {
				fmt.Printf("ENGINE-CERTIFICATE-FAILED property=%s harness=%s sum=%s\n", spec.ID, js.Harness, rep.CertSum)
				allExhausted = false
			}
		}
		if !res.Exhausted {
			allExhausted = false
			fmt.Printf("INCOMPLETE property=%s bound=%q pending=%d unsupported=%v unknown=%d\n", spec.ID, js.Bound, res.Pending, res.Unsupported, res.UnknownN)
		}
		totalPaths += res.Paths
		totalQueries += res.Queries
		totalSolverQ += res.SatN + res.UnsatN + res.UnknownN
		solverTime += res.SolverTime
		for k, v := range res.Funcs {
			funcs[k] = v
		}
		for k, v := range res.KnownHits {
			knownSeen[k] += v
		}
		for _, v := range res.Violations {
			newViol = append(newViol, v)
		}
		for _, s := range res.Samples {
			samples = append(samples, smp{len(reports), s})
		}
		fmt.Printf("  %s %s%v: paths=%d exhausted=%v queries=%d solverq=%d new=%d known=%d wall=%.1fs\n", spec.ID, js.Harness, js.Params, res.Paths, res.Exhausted, res.Queries, res.SatN+res.UnsatN, res.NewViol, sumMap(res.KnownHits), res.Wall.Seconds())
		reports = append(reports, rep)
		_ = knownSample
	}

	// ---- native validation of sampled paths (all in one go test run per package)
	validated, mismatches := 0, 0
	byPkg := map[string][]int{}
	for i, s := range samples {
		byPkg[spec.Jobs0(reports[s.job].Harness)] = append(byPkg[spec.Jobs0(reports[s.job].Harness)], i)
	}
	engineTrouble := ""
	for pkg, idxs := range byPkg {
		var cases []ReplayCase
		for _, i := range idxs {
			s := samples[i]
			cases = append(cases, ReplayCase{Harness: reports[s.job].Harness, Params: reports[s.job].Params, Model: s.s.Model})
		}
		res, err := nativeReplay(verifDir, pkg, cases, spec.ID+"-samples")
		if err != nil {
			engineTrouble = "native validation could not run: " + err.Error()
			break
		}
		for k, i := range idxs {
			s := samples[i]
			r := res[k]
			ok := r.Outcome == s.s.Outcome && string(r.Digest) == string(s.s.Digest) && sameSet(r.Failed, s.s.Failed)
			if ok {
				validated++
				reports[s.job].Validated++
			} else {
				mismatches++
				reports[s.job].Mismatches++
				if mismatches <= 3 {
					fmt.Printf("ENGINE-MISMATCH property=%s harness=%s model=%v engine(outcome=%s failed=%v digest=%q) native(outcome=%s %s failed=%v digest=%q)\n",
						spec.ID, reports[s.job].Harness, s.s.Model, s.s.Outcome, s.s.Failed, trunc(string(s.s.Digest), 200), r.Outcome, r.Detail, r.Failed, trunc(string(r.Digest), 200))
				}
			}
			if len(evidenceSamples) < 12 {
				evidenceSamples = append(evidenceSamples, map[string]any{"harness": reports[s.job].Harness, "params": reports[s.job].Params,
					"input_bytes": latin1(bytesOf(s.s.Model, s.s.Widths)), "model": s.s.Model, "outcome": s.s.Outcome, "failed_clauses": s.s.Failed, "native_agrees": ok})
			}
		}
	}

	// ---- replay new violations natively
	exit := 0
	var violLines []string
	if len(newViol) > 0 && engineTrouble == "" {
		os.MkdirAll(filepath.Join(verifDir, outDir("replays"), spec.ID), 0o755)
		byPkgV := map[string][]*symgo.Violation{}
		for _, v := range newViol {
			byPkgV[spec.Jobs0(v.Harness)] = append(byPkgV[spec.Jobs0(v.Harness)], v)
		}
		for pkg, vs := range byPkgV {
			var cases []ReplayCase
			for _, v := range vs {
				cases = append(cases, ReplayCase{Harness: v.Harness, Params: v.Params, Model: v.Model})
			}
			res, err := nativeReplay(verifDir, pkg, cases, spec.ID+"-viol")
			if err != nil {
				engineTrouble = "violation replay could not run: " + err.Error()
				break
			}
			for k, v := range vs {
				r := res[k]
				repro := false
				switch v.Kind {
				case "check":
					repro = contains(r.Failed, v.Clause)
				case "panic":
					repro = r.Outcome == "panic"
				case "budget":
					repro = r.Outcome == "timeout"
				case "engine":
					repro = true // engine-level observation (e.g. write into frozen state); no native counterpart
				}
				name := fmt.Sprintf("%s-%s-%x.json", v.Harness, sanitize(v.Clause), hashBytes(v.Bytes(), v.Model))
				path := filepath.Join(verifDir, outDir("replays"), spec.ID, name)
				rb, _ := json.MarshalIndent(map[string]any{"property": spec.ID, "harness": v.Harness, "params": v.Params, "pkg": pkg,
					"model": v.Model, "widths": v.Widths, "input_bytes": latin1(v.Bytes()), "clause": v.Clause, "kind": v.Kind, "detail": v.Detail,
					"native": r, "reproduced_natively": repro}, "", " ")
				os.WriteFile(path, rb, 0o644)
				if repro {
					violLines = append(violLines, fmt.Sprintf("VIOLATION property=%s replay=%s", spec.ID, path))
					fmt.Printf("  violation: clause=%s harness=%s%v input=%q native=%s %s failed=%v\n", v.Clause, v.Harness, v.Params, v.Bytes(), r.Outcome, r.Detail, r.Failed)
					exit = 1
				} else {
					engineTrouble = fmt.Sprintf("counterexample for clause %s (harness %s, input %q) does not reproduce natively (native outcome=%s failed=%v)", v.Clause, v.Harness, v.Bytes(), r.Outcome, r.Failed)
					fmt.Printf("ENGINE-MISMATCH property=%s %s replay=%s\n", spec.ID, engineTrouble, path)
				}
			}
		}
	}
	for k, n := range knownSeen {
		what := k
		if i := strings.Index(k, "what="); i >= 0 {
			what = k[i+5:]
		}
		fmt.Printf("KNOWN-FINDING: property=%s %s (matched on %d paths)\n", spec.ID, what, n)
	}
	for _, l := range violLines {
		fmt.Println(l)
	}
	if crossBad > 0 && engineTrouble == "" {
		engineTrouble = fmt.Sprintf("%d solver verdicts were contradicted by z3 5.1 / cvc5 (see CROSS-DISAGREE lines)", crossBad)
	}
	if mismatches > 0 && engineTrouble == "" {
		engineTrouble = fmt.Sprintf("%d sampled paths disagree with the native build", mismatches)
	}

	// ---- evidence
	var fnList []string
	for k := range funcs {
		fnList = append(fnList, k)
	}
	sort.Strings(fnList)
	fnInstr := 0
	for _, v := range funcs {
		fnInstr += v
	}
	var knownList []string
	for k, n := range knownSeen {
		knownList = append(knownList, fmt.Sprintf("%s [matched %d paths]", k, n))
	}
	sort.Strings(knownList)
	if len(evidenceSamples) == 0 {
		evidenceSamples = append(evidenceSamples, "no path completed")
	}
	cov := map[string]any{
		"states":                        totalPaths,
		"transitions":                   totalQueries,
		"traces_validated_against_impl": validated,
		"samples":                       evidenceSamples,
		"exhaustive":                    allExhausted,
		"explanation":                   spec.Explanation,
		"states_meaning":                "completed symbolic paths (each a distinct path condition; together they partition the bounded input space when exhaustive)",
		"transitions_meaning":           "branch-feasibility and assertion queries (including cache hits); queries_sent_to_solver counts those z3 actually decided",
		"queries_sent_to_solver":        totalSolverQ,
		"solver_time_s":                 solverTime.Seconds(),
		"solver":                        "z3 4.8.12 (/usr/bin/z3 -in), QF_BV; unknown results retried on z3 5.1 and cvc5",
		"bounds":                        reports,
		"functions_encoded":             len(fnList),
		"ssa_instructions_encoded":      fnInstr,
		"functions_encoded_list":        fnList,
		"native_mismatches":             mismatches,
		"known_findings_matched":        knownList,
		"skipped_units":                 skippedUnits,
		"cross_checked_queries":         crossChecked,
		"cross_check_disagreements":     crossBad,
		"engine_trouble":                engineTrouble,
	}
	ev := map[string]any{
		"property_id": spec.ID, "tier": tier, "seed": seed, "level": spec.Level, "coverage": cov,
		"assumptions": spec.Assumptions, "wall_s": time.Since(t0).Seconds(), "violations": len(violLines),
	}
	os.MkdirAll(filepath.Join(verifDir, outDir("evidence")), 0o755)
	eb, _ := json.MarshalIndent(ev, "", " ")
	os.WriteFile(filepath.Join(verifDir, outDir("evidence"), spec.ID+".json"), eb, 0o644)
	fmt.Printf("%s tier=%s paths=%d queries=%d solver_queries=%d validated=%d exhaustive=%v violations=%d known=%d wall=%.1fs\n",
		spec.ID, tier, totalPaths, totalQueries, totalSolverQ, validated, allExhausted, len(violLines), len(knownSeen), time.Since(t0).Seconds())
	if exit == 0 && engineTrouble != "" {
		fmt.Printf("ENGINE-TROUBLE property=%s %s\n", spec.ID, engineTrouble)
		return 2
	}
	return exit
}

// outDir: evidence and replay files describe /repo; when VERIF_REPO points a
// development run at a scratch tree they go to a scratch directory instead.
func outDir(name string) string {
	if repoDir != "/repo" {
		return filepath.Join("logs", "scratch-"+filepath.Base(repoDir), name)
	}
	return name
}

// Jobs0 returns the package of the harness.
func (p *PropSpec) Jobs0(harness string) string {
	for _, j := range p.Jobs {
		if j.Harness == harness {
			return j.Pkg
		}
	}
	return pkgCM
}

func sumMap(m map[string]int64) int64 {
	var s int64
	for _, v := range m {
		s += v
	}
	return s
}

func sameSet(a, b []string) bool {
	m := map[string]bool{}
	for _, x := range a {
		m[x] = true
	}
	n := map[string]bool{}
	for _, x := range b {
		n[x] = true
	}
	if len(m) != len(n) {
		return false
	}
	for k := range m {
		if !n[k] {
			return false
		}
	}
	return true
}

func contains(a []string, s string) bool {
	for _, x := range a {
		if x == s {
			return true
		}
	}
	return false
}

func trunc(s string, n int) string {
	if len(s) > n {
		return s[:n] + "…"
	}
	return s
}

func bytesOf(model []uint64, widths []uint8) []byte {
	var b []byte
	for i, w := range widths {
		if w == 8 {
			if i < len(model) {
				b = append(b, byte(model[i]))
			} else {
				b = append(b, 0)
			}
		}
	}
	return b
}

func sanitize(s string) string {
	return regexp.MustCompile(`[^A-Za-z0-9_.-]`).ReplaceAllString(s, "_")
}

func hashBytes(b []byte, m []uint64) uint32 {
	h := uint32(2166136261)
	for _, c := range b {
		h = (h ^ uint32(c)) * 16777619
	}
	for _, v := range m {
		h = (h ^ uint32(v)) * 16777619
		h = (h ^ uint32(v>>32)) * 16777619
	}
	return h
}

func cmdRun(args []string) {
	if len(args) < 1 {
		fmt.Fprintln(os.Stderr, "usage: vcheck run <property> [--tier quick|thorough]")
		os.Exit(2)
	}
	id := args[0]
	tier := os.Getenv("VERIF_TIER")
	workers := 16
	if s := os.Getenv("VERIF_WORKERS"); s != "" {
		if n, err := strconv.Atoi(s); err == nil && n > 0 {
			workers = n
		}
	}
	verif := defaultVerifDir
	for i := 1; i < len(args); i++ {
		switch args[i] {
		case "--tier":
			i++
			tier = args[i]
		case "-j":
			i++
			workers, _ = strconv.Atoi(args[i])
		case "--verif":
			i++
			verif = args[i]
		}
	}
	if tier != "thorough" {
		tier = "quick"
	}
	var seed int64 = 1
	if s := os.Getenv("VERIF_SEED"); s != "" {
		seed, _ = strconv.ParseInt(s, 10, 64)
	}
	spec := propSpecs()[id]
	if spec == nil {
		fmt.Fprintln(os.Stderr, "unknown property", id)
		os.Exit(2)
	}
	code := runProperty(verif, spec, tier, seed, workers)
	os.Remove(filepath.Join(verif, "work")) // scratch sub-directories are removed by their users; drop the directory only if empty
	os.Exit(code)
}
