package main

import "fmt"

// number of templates in harness/commonmark/h_tl.go
const nTL = 59

// quick-tier subset of TL (at most two holes, cheap)
var tlQuick = []int{0, 1, 2, 3, 5, 6, 7, 8, 9, 10, 11, 12, 13, 14, 15, 16, 17, 18, 19, 20, 22, 23, 24, 25, 27, 28, 29, 30, 32, 33, 34, 35, 39, 40, 44, 48, 49, 53, 54}

func fJobs(h string, quickN []int, thoroughN []int, second int64, clausePanic string) []JobSpec {
	var js []JobSpec
	for _, n := range quickN {
		js = append(js, JobSpec{Pkg: pkgCM, Harness: h, Params: []int64{0, int64(n)}, Bound: fmt.Sprintf("F(%d): all byte strings of length %d", n, n), Tier: "quick", Cert: 16})
	}
	for _, n := range thoroughN {
		js = append(js, JobSpec{Pkg: pkgCM, Harness: h, Params: []int64{0, int64(n)}, Bound: fmt.Sprintf("F(%d): all byte strings of length %d", n, n), Tier: "thorough", Cert: 16})
	}
	return js
}

func tlJobs(h string) []JobSpec {
	var js []JobSpec
	q := map[int]bool{}
	for _, i := range tlQuick {
		q[i] = true
	}
	for i := 0; i < nTL; i++ {
		t := "thorough"
		if q[i] {
			t = "quick"
		}
		js = append(js, JobSpec{Pkg: pkgCM, Harness: h, Params: []int64{1, int64(i)}, Bound: fmt.Sprintf("TL[%d]: template %d of the shared template library with unconstrained holes", i, i), Tier: t})
	}
	return js
}

var commonAssumptions = []string{
	"go/ssa lowering of the current /repo working tree (x/tools v0.29.0) is faithful; the symgo interpreter implements SSA semantics (validated on every run by replaying sampled paths natively and comparing digests)",
	"summaries: internal/bytealg.{IndexByte,IndexByteString,Index,IndexString,Count,CountString,Equal,Compare,MakeNoZero}, internal/abi.NoEscape, sync.Mutex/Once/atomic (sequential), fmt.Errorf/Sprintf (opaque), unsafe.String/SliceData (copying)",
	"package initialisers of the library, bytes, strings, unicode, utf8, html, strconv, io, x/text, x/net/html/atom are executed concretely by the interpreter; other packages' globals are poisoned",
	"z3 4.8.12 verdicts (unknown/timeout is never counted as unsat); single-byte queries share verdicts through a cache keyed by their solution set",
	"inputs outside the stated bounds (longer strings not matching a template) are outside the claim",
}

func treeSpec(id, h, expl string, streamH string) *PropSpec {
	p := &PropSpec{ID: id, Level: "model_checking", Explanation: expl, Assumptions: commonAssumptions, QuickSec: 170, ThoroughSec: 1500}
	p.Jobs = append(p.Jobs, fJobs(h, []int{1, 2, 3}, []int{4}, 0, "")...)
	p.Jobs = append(p.Jobs, tlJobs(h)...)
	if streamH != "" {
		p.Jobs = append(p.Jobs, JobSpec{Pkg: pkgCM, Harness: streamH, Params: []int64{0, 3}, Bound: "F(3) through the streaming entry point + Extract + Rewrite", Tier: "quick"})
	}
	return p
}

func propSpecs() map[string]*PropSpec {
	m := map[string]*PropSpec{}
	add := func(p *PropSpec) { m[p.ID] = p }

	c01 := &PropSpec{ID: "C01", Level: "model_checking", Assumptions: commonAssumptions, QuickSec: 170, ThoroughSec: 1500,
		Explanation: "bounded symbolic execution of Parse and of NewBlockParser/NextBlock on symbolic inputs; tiling, offset, line, Source, aliasing and no-write clauses asserted on every path"}
	for _, e := range []int64{0, 1} {
		name := "in-memory Parse"
		if e == 1 {
			name = "streaming NextBlock (one-shot reader)"
		}
		for n := int64(1); n <= 3; n++ {
			c01.Jobs = append(c01.Jobs, JobSpec{Pkg: pkgCM, Harness: "H_C01_F", Params: []int64{n, e}, Bound: fmt.Sprintf("F(%d) via %s", n, name), Tier: "quick", Cert: 16})
		}
		c01.Jobs = append(c01.Jobs, JobSpec{Pkg: pkgCM, Harness: "H_C01_F", Params: []int64{4, e}, Bound: fmt.Sprintf("F(4) via %s", name), Tier: "thorough", Cert: 16})
		for i := int64(0); i < 10; i++ {
			t := "quick"
			if i >= 7 {
				t = "thorough"
			}
			c01.Jobs = append(c01.Jobs, JobSpec{Pkg: pkgCM, Harness: "H_C01_T", Params: []int64{i, e}, Bound: fmt.Sprintf("C01 template %d via %s", i, name), Tier: t})
		}
	}
	add(c01)
	add(treeSpec("C02", "H_C02", "bounded symbolic execution of Parse; span validity, nesting, sibling order, root-end/prefix and UTF-8 boundary clauses asserted for every node on every path", "H_C02s"))
	add(treeSpec("C03", "H_C03", "bounded symbolic execution of Parse; leaf cover counted per source byte; no-dup and no-loss clauses asserted on every path", ""))
	add(treeSpec("C05", "H_C05", "bounded symbolic execution of Parse; node grammar table and accessor ranges asserted for every node on every path", "H_C05s"))
	add(treeSpec("C13", "H_C13", "bounded symbolic execution of Parse; construct shape table evaluated on Source[span] (symbolic bytes) for every node on every path", ""))
	return m
}
