package main

import "fmt"

// number of templates in harness/commonmark/h_tl.go
const nTL = 114

// quick-tier subset of TL (at most two holes, cheap)
var tlQuick = []int{0, 1, 2, 3, 5, 6, 7, 8, 9, 10, 11, 12, 13, 14, 15, 16, 17, 18, 19, 20, 22, 23, 24, 25, 27, 28, 29, 30, 32, 33, 34, 35, 39, 40, 44, 48, 49, 53, 54, 59, 60, 61, 62, 63, 64, 65, 66, 67, 68, 69, 70, 71, 72, 73, 74, 75, 76, 77, 78, 79, 80, 81, 82, 83, 84, 85, 86, 87, 88, 89, 90, 91, 92, 93, 94, 95, 96, 97, 98, 99, 100, 101, 102, 103, 104, 105, 106, 107, 108, 109, 110, 111, 112, 113}

func fJobs(h string, quickN []int, thoroughN []int, second int64, clausePanic string) []JobSpec {
	var js []JobSpec
	for _, n := range quickN {
		js = append(js, JobSpec{Pkg: pkgCM, Harness: h, Params: []int64{0, int64(n)}, Bound: fmt.Sprintf("F(%d): all byte strings of length %d", n, n), Tier: "quick", Cert: 16})
	}
	for _, n := range thoroughN {
		js = append(js, JobSpec{Pkg: pkgCM, Harness: h, Params: []int64{0, int64(n)}, Bound: fmt.Sprintf("F(%d): all byte strings of length %d", n, n), Tier: "thorough", Cert: 16})
	}
	return js
}

func tlJobs(h string) []JobSpec {
	var js []JobSpec
	q := map[int]bool{}
	for _, i := range tlQuick {
		q[i] = true
	}
	for i := 0; i < nTL; i++ {
		t := "thorough"
		if q[i] {
			t = "quick"
		}
		js = append(js, JobSpec{Pkg: pkgCM, Harness: h, Params: []int64{1, int64(i)}, Bound: fmt.Sprintf("TL[%d]: template %d of the shared template library with unconstrained holes", i, i), Tier: t})
	}
	return js
}

// multi-line members of TL that are also run with CRLF (quick) and bare-CR (thorough)
// line endings (template kinds 6 and 7 of treeInput)
var tlMultiLine = []int{9, 10, 13, 14, 20, 29, 33, 34, 39, 40, 44, 53, 59, 60, 61, 62, 63, 64, 68, 70, 73, 75, 81, 87, 88, 89, 94, 96, 97, 98, 100, 102, 103, 104, 105, 108, 109, 111}

func tlEOLJobs(h string) []JobSpec {
	var js []JobSpec
	for _, i := range tlMultiLine {
		js = append(js, JobSpec{Pkg: pkgCM, Harness: h, Params: []int64{6, int64(i)}, Bound: fmt.Sprintf("TL[%d] with CRLF line endings", i), Tier: "quick"})
		crTier := "thorough"
		if i == 14 || i == 20 || i == 29 || i == 53 || i == 81 || i == 87 || i == 102 || i == 104 || i == 105 {
			crTier = "quick"
		}
		js = append(js, JobSpec{Pkg: pkgCM, Harness: h, Params: []int64{7, int64(i)}, Bound: fmt.Sprintf("TL[%d] with bare-CR line endings", i), Tier: crTier})
	}
	return js
}

var commonAssumptions = []string{
	"go/ssa lowering of the current /repo working tree (x/tools v0.29.0) is faithful; the symgo interpreter implements SSA semantics (validated on every run by replaying sampled paths natively and comparing digests)",
	"summaries: internal/bytealg.{IndexByte,IndexByteString,Index,IndexString,Count,CountString,Equal,Compare,MakeNoZero}, internal/abi.NoEscape, sync.Mutex/Once/atomic (sequential), fmt.Errorf/Sprintf (opaque), unsafe.String/SliceData (copying)",
	"package initialisers of the library, bytes, strings, unicode, utf8, html, strconv, io, x/text, x/net/html/atom are executed concretely by the interpreter; other packages' globals are poisoned",
	"z3 4.8.12 verdicts (unknown/timeout is never counted as unsat); single-byte queries share verdicts through a cache keyed by their solution set",
	"inputs outside the stated bounds (longer strings not matching a template) are outside the claim",
}

// members of TL whose trees contain no construct C13 has a shape clause for (plain
// text, HTML blocks, thematic breaks): `vcheck twin C13` reported them vacuous, so
// they are not registered for C13
var tlNoShape = map[int]bool{16: true, 17: true, 23: true, 24: true, 25: true, 35: true, 56: true, 105: true, 109: true}

func treeSpec(id, h, expl string, streamH string) *PropSpec {
	p := &PropSpec{ID: id, Level: "model_checking", Explanation: expl, Assumptions: commonAssumptions, QuickSec: 170, ThoroughSec: 900}
	p.Jobs = append(p.Jobs, fJobs(h, []int{1, 2, 3}, []int{4}, 0, "")...)
	for _, j := range tlJobs(h) {
		if id == "C13" && tlNoShape[int(j.Params[1])] {
			continue
		}
		p.Jobs = append(p.Jobs, j)
	}
	for _, j := range tlEOLJobs(h) {
		if id == "C13" && tlNoShape[int(j.Params[1])] {
			continue
		}
		p.Jobs = append(p.Jobs, j)
	}
	if streamH != "" {
		p.Jobs = append(p.Jobs, JobSpec{Pkg: pkgCM, Harness: streamH, Params: []int64{0, 3}, Bound: "F(3) through the streaming entry point + Extract + Rewrite", Tier: "quick"})
	}
	return p
}

func propSpecs() map[string]*PropSpec {
	m := map[string]*PropSpec{}
	add := func(p *PropSpec) { m[p.ID] = p }

	c01 := &PropSpec{ID: "C01", Level: "model_checking", Assumptions: commonAssumptions, QuickSec: 170, ThoroughSec: 900,
		Explanation: "bounded symbolic execution of Parse and of NewBlockParser/NextBlock on symbolic inputs; tiling, offset, line, Source, aliasing and no-write clauses asserted on every path"}
	for _, e := range []int64{0, 1} {
		name := "in-memory Parse"
		if e == 1 {
			name = "streaming NextBlock (one-shot reader)"
		}
		for n := int64(1); n <= 3; n++ {
			c01.Jobs = append(c01.Jobs, JobSpec{Pkg: pkgCM, Harness: "H_C01_F", Params: []int64{n, e}, Bound: fmt.Sprintf("F(%d) via %s", n, name), Tier: "quick", Cert: 16})
		}
		c01.Jobs = append(c01.Jobs, JobSpec{Pkg: pkgCM, Harness: "H_C01_F", Params: []int64{4, e}, Bound: fmt.Sprintf("F(4) via %s", name), Tier: "thorough", Cert: 16})
		for i := int64(0); i < 10; i++ {
			t := "quick"
			if i >= 7 {
				t = "thorough"
			}
			c01.Jobs = append(c01.Jobs, JobSpec{Pkg: pkgCM, Harness: "H_C01_T", Params: []int64{i, e}, Bound: fmt.Sprintf("C01 template %d via %s", i, name), Tier: t})
		}
	}
	for n := int64(1); n <= 2; n++ {
		c01.Jobs = append(c01.Jobs, JobSpec{Pkg: pkgCM, Harness: "H_C01_F", Params: []int64{n, 2}, Bound: fmt.Sprintf("F(%d) via streaming NextBlock under every read schedule (chunk sizes, empty reads, EOF with data)", n), Tier: "quick"})
	}
	c01.Jobs = append(c01.Jobs, JobSpec{Pkg: pkgCM, Harness: "H_C01_T", Params: []int64{10, 3}, Bound: "C01 template 10 (byte, EOL, EOL, byte) via streaming NextBlock, input cut into two reads at every position", Tier: "quick"})
	for _, i := range []int64{12, 13, 14} {
		c01.Jobs = append(c01.Jobs, JobSpec{Pkg: pkgCM, Harness: "H_C01_T", Params: []int64{i, 0}, Bound: fmt.Sprintf("C01 template %d (CRLF / bare-CR document) via in-memory Parse", i), Tier: "quick"})
	}
	for _, i := range []int64{1, 11, 12, 13} {
		c01.Jobs = append(c01.Jobs, JobSpec{Pkg: pkgCM, Harness: "H_C01_T", Params: []int64{i, 3}, Bound: fmt.Sprintf("C01 template %d via streaming NextBlock, input cut into two reads at every position", i), Tier: "quick"})
	}
	for n := int64(1); n <= 3; n++ {
		c01.Jobs = append(c01.Jobs, JobSpec{Pkg: pkgCM, Harness: "H_C01_F", Params: []int64{n, 4}, Bound: fmt.Sprintf("F(%d) via in-memory Parse of a sub-slice with spare capacity (buffer and spare bytes must stay untouched, NUL or not)", n), Tier: "quick"})
	}
	for _, i := range []int64{4, 6} {
		c01.Jobs = append(c01.Jobs, JobSpec{Pkg: pkgCM, Harness: "H_C01_T", Params: []int64{i, 4}, Bound: fmt.Sprintf("C01 template %d via in-memory Parse of a sub-slice with spare capacity", i), Tier: "quick"})
	}
	c01.Jobs = append(c01.Jobs, JobSpec{Pkg: pkgCM, Harness: "H_C01_F", Params: []int64{3, 2}, Bound: "F(3) via streaming NextBlock under every read schedule", Tier: "thorough"})
	for _, i := range []int64{0, 2, 3, 4, 5, 6} {
		c01.Jobs = append(c01.Jobs, JobSpec{Pkg: pkgCM, Harness: "H_C01_T", Params: []int64{i, 3}, Bound: fmt.Sprintf("C01 template %d via streaming NextBlock, input cut into two reads at every position", i), Tier: "thorough"})
	}
	add(c01)
	add(treeSpec("C02", "H_C02", "bounded symbolic execution of Parse; span validity, nesting, sibling order, root-end/prefix and UTF-8 boundary clauses asserted for every node on every path", "H_C02s"))
	add(treeSpec("C03", "H_C03", "bounded symbolic execution of Parse; leaf cover counted per source byte; no-dup and no-loss clauses asserted on every path", ""))
	add(treeSpec("C05", "H_C05", "bounded symbolic execution of Parse; node grammar table and accessor ranges asserted for every node on every path", "H_C05s"))
	add(treeSpec("C13", "H_C13", "bounded symbolic execution of Parse; construct shape table evaluated on Source[span] (symbolic bytes) for every node on every path", ""))
	c15 := &PropSpec{ID: "C15", Level: "model_checking", Assumptions: append([]string{"a 'line' is n bytes without LF/CR followed by one of: nothing, LF, CR, CRLF; leading indentation already stripped (first byte not space/tab), as the recognisers' callers guarantee"}, commonAssumptions...), QuickSec: 170, ThoroughSec: 900,
		Explanation: "unit-level bounded symbolic execution of the unexported recognisers and classifiers against reference recognisers transcribed from the CommonMark 0.30 text, plus the same decisions observed through Parse; NormalizeURI and IsEmailAddress against RFC 3986 character classes / the spec's regular expression"}
	j := func(h string, a int64, bound, tier string) {
		c15.Jobs = append(c15.Jobs, JobSpec{Pkg: pkgCM, Harness: h, Params: []int64{a, 0}, Bound: bound, Tier: tier})
	}
	j("H_C15_classes", 0, "all 256 byte values (exhaustive)", "quick")
	for _, h := range []string{"H_C15_thematic", "H_C15_atx", "H_C15_setext", "H_C15_fence"} {
		for n := int64(0); n <= 6; n++ {
			j(h, n, fmt.Sprintf("all lines with %d body bytes x 4 line endings", n), "quick")
		}
		j(h, 7, "all lines with 7 body bytes x 4 line endings", "thorough")
		j(h, 8, "all lines with 8 body bytes x 4 line endings", "thorough")
	}
	for n := int64(0); n <= 7; n++ {
		j("H_C15_marker", n, fmt.Sprintf("all lines with %d body bytes x 4 line endings", n), "quick")
	}
	for n := int64(8); n <= 12; n++ {
		j("H_C15_marker", n, fmt.Sprintf("all lines with %d body bytes x 4 line endings (nine-digit numbers at 10+)", n), "thorough")
	}
	j("H_C15_marker", 11, "all lines with 11 body bytes (nine digits + delimiter + follower)", "quick")
	j("H_C15_api", 1, "one-line documents, 1 body byte, through Parse", "quick")
	j("H_C15_api", 2, "one-line documents, 2 body bytes, through Parse", "quick")
	j("H_C15_api", 3, "one-line documents, 3 body bytes, through Parse", "quick")
	j("H_C15_api", 4, "one-line documents, 4 body bytes, through Parse", "thorough")
	for n := int64(0); n <= 3; n++ {
		j("H_C15_uri", n, fmt.Sprintf("NormalizeURI on all byte strings of length %d (incl. invalid UTF-8)", n), "quick")
	}
	j("H_C15_uri", 4, "NormalizeURI on all byte strings of length 4", "thorough")
	for n := int64(0); n <= 4; n++ {
		j("H_C15_email", n, fmt.Sprintf("IsEmailAddress on all byte strings of length %d", n), "quick")
	}
	j("H_C15_email", 5, "IsEmailAddress on all byte strings of length 5", "thorough")
	for _, k := range []int64{59, 60, 61, 62, 63, 64} {
		j("H_C15_email_label", k, fmt.Sprintf("a@ + %d x 'a' + 2 free label bytes (63-character label limit)", k), "quick")
	}
	add(c15)

	// ---- C04
	c04 := &PropSpec{ID: "C04", Level: "model_checking", Assumptions: append([]string{"non-termination is approximated by a per-path budget of 20,000,000 SSA instructions (the longest path on the unchanged tree uses < 200,000); a budget hit is confirmed natively with a 20 s watchdog before it is reported", "stack exhaustion and out-of-memory are outside the claim; nesting depth is bounded by the templates (<= 8)"}, commonAssumptions...), QuickSec: 170, ThoroughSec: 900,
		Explanation: "bounded symbolic execution of Parse, NextBlock (one-shot and 1-byte readers) + Rewrite, Render under 18 configurations (3 soft-break modes x IgnoreRaw x {nil, GFM, reject-all}), Walk, and format.Format; any feasible path that panics or exhausts the step budget is a violation, error values are asserted"}
	for n := int64(1); n <= 3; n++ {
		c04.Jobs = append(c04.Jobs, JobSpec{Pkg: pkgCM, Harness: "H_C04", Params: []int64{0, n}, Bound: fmt.Sprintf("F(%d)", n), Tier: "quick", Panic: "C04.no-panic", Budget: "C04.terminates", Cert: 16})
	}
	c04.Jobs = append(c04.Jobs, JobSpec{Pkg: pkgCM, Harness: "H_C04", Params: []int64{0, 4}, Bound: "F(4)", Tier: "thorough", Panic: "C04.no-panic", Budget: "C04.terminates"})
	for i := int64(0); i < 27; i++ {
		t := "quick"
		if i >= 22 {
			t = "thorough"
		}
		c04.Jobs = append(c04.Jobs, JobSpec{Pkg: pkgCM, Harness: "H_C04", Params: []int64{2, i}, Bound: fmt.Sprintf("C04 template %d (unterminated constructs at end of input, nesting depth 8)", i), Tier: t, Panic: "C04.no-panic", Budget: "C04.terminates"})
	}
	for _, kn := range [][2]int64{{3, 999}, {3, 1000}, {4, 999}, {4, 1000}, {5, 40}, {6, 64}, {7, 8}} {
		c04.Jobs = append(c04.Jobs, JobSpec{Pkg: pkgCM, Harness: "H_C04", Params: kn[:], Bound: fmt.Sprintf("C04 size-boundary input kind %d with n=%d (label limit 999, nesting, local part, digits)", kn[0], kn[1]), Tier: "quick", Panic: "C04.no-panic", Budget: "C04.terminates"})
	}
	for _, kn := range [][2]int64{{3, 998}, {3, 1001}, {3, 3000}, {4, 998}, {4, 1001}, {5, 200}, {6, 63}, {6, 65}, {7, 7}} {
		js := JobSpec{Pkg: pkgCM, Harness: "H_C04", Params: kn[:], Bound: fmt.Sprintf("C04 size-boundary input kind %d with n=%d", kn[0], kn[1]), Tier: "thorough", Panic: "C04.no-panic", Budget: "C04.terminates"}
		if kn[1] >= 200 && kn[0] != 3 || kn[1] >= 3000 {
			// the longest paths of these two inputs take 74-84 million interpreter steps (measured);
			// the default budget of 20 million is a non-termination proxy sized for short inputs
			js.Steps = 400_000_000
		}
		c04.Jobs = append(c04.Jobs, js)
	}
	for _, i := range []int64{0, 1, 2, 3, 5, 10, 20, 21, 23, 24} {
		c04.Jobs = append(c04.Jobs, JobSpec{Pkg: pkgCM, Harness: "H_C04", Params: []int64{8, i}, Bound: fmt.Sprintf("attribute-emission template %d (free bytes in destinations, titles, info strings, autolinks)", i), Tier: "quick", Panic: "C04.no-panic", Budget: "C04.terminates"})
	}
	for n := int64(1); n <= 3; n++ {
		c04.Jobs = append(c04.Jobs, JobSpec{Pkg: pkgFmt, Harness: "H_C04_format", Params: []int64{n, 0}, Bound: fmt.Sprintf("format.Format on F(%d)", n), Tier: "quick", Panic: "C04.no-panic", Budget: "C04.terminates"})
	}
	c04.Jobs = append(c04.Jobs, JobSpec{Pkg: pkgFmt, Harness: "H_C04_format", Params: []int64{4, 0}, Bound: "format.Format on F(4)", Tier: "thorough", Panic: "C04.no-panic", Budget: "C04.terminates"})
	for _, i := range tlQuick {
		c04.Jobs = append(c04.Jobs, JobSpec{Pkg: pkgCM, Harness: "H_C04", Params: []int64{1, int64(i)}, Bound: fmt.Sprintf("TL[%d]", i), Tier: "thorough", Panic: "C04.no-panic", Budget: "C04.terminates"})
	}
	add(c04)

	// ---- C07
	c07 := &PropSpec{ID: "C07", Level: "model_checking", Assumptions: commonAssumptions, QuickSec: 170, ThoroughSec: 900,
		Explanation: "bounded symbolic execution of Parse + Render with IgnoreRaw=true (3 soft-break modes) and IgnoreRaw=false on raw-free documents; a strict tokenizer over the symbolic output bytes asserts tag/attribute vocabulary, nesting, quoting and escaping, and the tag/attribute-name skeleton is compared with one computed from the tree alone"}
	for n := int64(1); n <= 3; n++ {
		c07.Jobs = append(c07.Jobs, JobSpec{Pkg: pkgCM, Harness: "H_C07", Params: []int64{n, 0}, Bound: fmt.Sprintf("F(%d)", n), Tier: "quick", Cert: 16})
	}
	c07.Jobs = append(c07.Jobs, JobSpec{Pkg: pkgCM, Harness: "H_C07", Params: []int64{4, 0}, Bound: "F(4)", Tier: "thorough"})
	heavyAttr := map[int]bool{5: true, 8: true, 10: true}
	for i := 0; i < 26; i++ {
		t := "quick"
		if heavyAttr[i] {
			t = "thorough"
		}
		c07.Jobs = append(c07.Jobs, JobSpec{Pkg: pkgCM, Harness: "H_C07", Params: []int64{int64(2000 + i), 0}, Bound: fmt.Sprintf("attribute-emission template %d", i), Tier: t})
	}
	for i, nm := range []string{"fenced code block of 300 lines", "bullet list of 300 items", "paragraph of 200 lines", "70 nested block quotes", "fenced code block of 70 lines", "bullet list of 66 items", "paragraph of 40 lines"} {
		c07.Jobs = append(c07.Jobs, JobSpec{Pkg: pkgCM, Harness: "H_C07", Params: []int64{int64(3000 + i), 0}, Bound: "wide / deep document around one free byte: " + nm, Tier: "quick"})
	}
	for _, i := range tlQuick {
		c07.Jobs = append(c07.Jobs, JobSpec{Pkg: pkgCM, Harness: "H_C07", Params: []int64{int64(1000 + i), 0}, Bound: fmt.Sprintf("TL[%d]", i), Tier: "thorough"})
	}
	add(c07)

	// ---- C10
	c10 := &PropSpec{ID: "C10", Level: "model_checking", Assumptions: append([]string{"conventions pinned by the reference renderer (DESIGN.md §C10): escape sets, attribute order, <br>+LF, verbatim character references, first word of the info string (strings.Fields), close tags offered to FilterTag with their slash"}, commonAssumptions...), QuickSec: 170, ThoroughSec: 900,
		Explanation: "bounded symbolic execution of Parse + Render in 6 configurations per filter (3 soft-break modes x IgnoreRaw) x 6 filter predicates, compared byte for byte (one solver query per comparison) with an independent reference renderer that reads the tree through the public API; determinism, purity (the tree and all pre-existing state are frozen during rendering) and the block-join rule are asserted"}
	fnames := []string{"nil", "GFM", "reject-all", "reject-none", "{xmp}", "{b,script}"}
	for f := int64(0); f < 6; f++ {
		for n := int64(1); n <= 2; n++ {
			c10.Jobs = append(c10.Jobs, JobSpec{Pkg: pkgCM, Harness: "H_C10", Params: []int64{n, f}, Bound: fmt.Sprintf("F(%d), FilterTag=%s", n, fnames[f]), Tier: "quick"})
		}
		t := "thorough"
		if f <= 1 {
			t = "quick"
		}
		c10.Jobs = append(c10.Jobs, JobSpec{Pkg: pkgCM, Harness: "H_C10", Params: []int64{3, f}, Bound: fmt.Sprintf("F(3), FilterTag=%s", fnames[f]), Tier: t})
	}
	for i := 0; i < 26; i++ {
		t := "quick"
		if heavyAttr[i] {
			t = "thorough"
		}
		c10.Jobs = append(c10.Jobs, JobSpec{Pkg: pkgCM, Harness: "H_C10", Params: []int64{int64(2000 + i), 0}, Bound: fmt.Sprintf("attribute-emission template %d, FilterTag=nil", i), Tier: t})
	}
	for _, i := range []int64{26, 27} {
		c10.Jobs = append(c10.Jobs, JobSpec{Pkg: pkgCM, Harness: "H_C10", Params: []int64{2000 + i, 5}, Bound: fmt.Sprintf("raw-HTML template %d (non-ASCII bytes in a tag name), FilterTag={b,script}", i), Tier: "quick"})
	}
	for _, f := range []int64{1, 2, 4, 5} {
		for _, i := range []int64{14, 15, 16, 17, 24, 25} {
			if i >= 16 && (f == 1 || f == 4) {
				continue // name look-ups over free bytes are slow under GFM; reject-all and {b,script} cover the scanner
			}
			c10.Jobs = append(c10.Jobs, JobSpec{Pkg: pkgCM, Harness: "H_C10", Params: []int64{2000 + i, f}, Bound: fmt.Sprintf("raw-HTML template %d, FilterTag=%s", i, fnames[f]), Tier: "quick"})
		}
	}
	for i, nm := range []string{"fenced code block of 300 lines", "bullet list of 300 items", "paragraph of 200 lines", "70 nested block quotes"} {
		c10.Jobs = append(c10.Jobs, JobSpec{Pkg: pkgCM, Harness: "H_C10", Params: []int64{int64(3000 + i), 0}, Bound: "wide / deep document around one free byte: " + nm + ", FilterTag=nil", Tier: "quick"})
	}
	for _, f := range []int64{0, 1, 2, 5} {
		c10.Jobs = append(c10.Jobs, JobSpec{Pkg: pkgCM, Harness: "H_C10_reuse", Params: []int64{f, 0}, Bound: fmt.Sprintf("one renderer value reused for four renders with its fields changed in between (same label, different destinations; FilterTag=%s for the later calls)", fnames[f]), Tier: "quick"})
	}
	c10.Jobs = append(c10.Jobs, JobSpec{Pkg: pkgCM, Harness: "H_C10_join", Params: []int64{100, 0}, Bound: "block-join rule on 100 paragraphs (6.4 KB of output, crosses 4 KiB)", Tier: "quick"})
	c10.Jobs = append(c10.Jobs, JobSpec{Pkg: pkgCM, Harness: "H_C10_join", Params: []int64{300, 0}, Bound: "block-join rule on 300 paragraphs (19 KB of output)", Tier: "thorough"})
	c10.Jobs = append(c10.Jobs, JobSpec{Pkg: pkgCM, Harness: "H_C10", Params: []int64{4, 0}, Bound: "F(4), FilterTag=nil", Tier: "thorough"})
	add(c10)

	// ---- C17
	c17 := &PropSpec{ID: "C17", Level: "model_checking", Assumptions: append([]string{"HTML tokenization per the WHATWG data, tag-open, end-tag-open, tag-name, attribute, markup-declaration-open, comment and bogus-comment states; RCDATA/RAWTEXT states are never entered because every raw-text element is rejected by the predicates considered"}, commonAssumptions...), QuickSec: 170, ThoroughSec: 900,
		Explanation: "bounded symbolic execution of Parse + Render with and without a predicate on HTML templates with symbolic holes; the filtered output (symbolic bytes) is aligned with the unfiltered one (only '<' -> '&lt;') and tokenised by a WHATWG-state tokenizer that must never emit a start tag the predicate rejects"}
	pnames := []string{"GFM", "reject-all", "reject-none", "{xmp}", "{x,xmp,script}"}
	for i := int64(0); i < 9; i++ {
		c17.Jobs = append(c17.Jobs, JobSpec{Pkg: pkgCM, Harness: "H_C17_gfm", Params: []int64{i, 0}, Bound: fmt.Sprintf("GFM predicate on raw-text element name %d of 9 in every letter case", i), Tier: "quick"})
	}
	for t := int64(0); t < 24; t++ {
		tier := "quick"
		if t >= 12 && t <= 16 {
			tier = "thorough"
		}
		for p := int64(0); p < 5; p++ {
			if t == 23 && p == 0 && tier == "quick" {
				c17.Jobs = append(c17.Jobs, JobSpec{Pkg: pkgCM, Harness: "H_C17", Params: []int64{t, p}, Bound: fmt.Sprintf("HTML template %d, predicate %s", t, pnames[p]), Tier: "thorough"})
				continue
			}
			c17.Jobs = append(c17.Jobs, JobSpec{Pkg: pkgCM, Harness: "H_C17", Params: []int64{t, p}, Bound: fmt.Sprintf("HTML template %d, predicate %s", t, pnames[p]), Tier: tier})
		}
	}
	for p := int64(0); p < 5; p++ {
		c17.Jobs = append(c17.Jobs, JobSpec{Pkg: pkgCM, Harness: "H_C17_F", Params: []int64{2, p}, Bound: fmt.Sprintf("F(2), predicate %s", pnames[p]), Tier: "quick"})
		tier := "thorough"
		if p <= 1 {
			tier = "quick"
		}
		c17.Jobs = append(c17.Jobs, JobSpec{Pkg: pkgCM, Harness: "H_C17_F", Params: []int64{3, p}, Bound: fmt.Sprintf("F(3), predicate %s", pnames[p]), Tier: tier})
	}
	add(c17)

	cm := func(p *PropSpec, h string, a, b int64, bound, tier string) {
		p.Jobs = append(p.Jobs, JobSpec{Pkg: pkgCM, Harness: h, Params: []int64{a, b}, Bound: bound, Tier: tier})
	}
	// ---- C08
	c08 := &PropSpec{ID: "C08", Level: "model_checking", Assumptions: append([]string{"reader model: the j-th Read returns min(c_j, remaining, len(p)) bytes with c_j a solver variable in 0..remaining, at most two consecutive empty reads, optionally the terminal condition (io.EOF or the injected error) together with the last data", "lines >= 8 KiB (buffer growth, block-too-large error) are outside the claim"}, commonAssumptions...), QuickSec: 170, ThoroughSec: 900,
		Explanation: "bounded symbolic execution of NewBlockParser/NextBlock/Extract/Rewrite under a symbolic read schedule (chunk sizes, empty reads, EOF-with-data) and under a symbolic fault point k, compared with in-memory Parse of the same bytes (of the first k bytes) by deep tree/position/reference-map equality; terminal error persistence asserted"}
	for n := int64(1); n <= 3; n++ {
		cm(c08, "H_C08", n, 0, fmt.Sprintf("A(%d, 13-byte-class alphabet), all read schedules", n), "quick")
		cm(c08, "H_C08", n, 1, fmt.Sprintf("A(%d), all fault points k and schedules", n), "quick")
	}
	cm(c08, "H_C08", 102, 0, "F(2) (unconstrained bytes), all read schedules", "quick")
	cm(c08, "H_C08", 102, 1, "F(2), all fault points", "quick")
	cm(c08, "H_C08_big", 2731, 0, "one free byte + 2731 NUL + \"a\\nb\" (NUL padding crosses the 8 KiB chunk); first two read sizes from {1,3,8191,8192,all}", "quick")
	cm(c08, "H_C08_big", 8191, 1, "one free byte + 8191 'x' + \"a\\nb\" (line crosses the 8 KiB chunk); first two read sizes from the menu", "quick")
	cm(c08, "H_C08_big", 8191, 3, "one free byte + 8190 'x' + a bare CR ending exactly at the 8 KiB chunk + \"a\\nb\"; first two read sizes from the menu", "quick")
	for _, k := range []int64{2729, 2730, 2732, 5461, 5462} {
		cm(c08, "H_C08_big", k, 0, fmt.Sprintf("one free byte + %d NUL + \"a\\nb\"; first two read sizes from the menu", k), "thorough")
	}
	for _, k := range []int64{8189, 8190, 8192, 8193, 16383, 16384} {
		cm(c08, "H_C08_big", k, 1, fmt.Sprintf("one free byte + %d 'x' + \"a\\nb\"; first two read sizes from the menu", k), "thorough")
	}
	for _, k := range []int64{8190, 8191, 8192} {
		cm(c08, "H_C08_big", k, 2, fmt.Sprintf("one free byte + %d bytes of CR LF pairs + \"a\\nb\" (CRLF across the chunk boundary)", k), "thorough")
	}
	for _, t := range []int64{11, 12, 13} {
		cm(c08, "H_C08_cut", t, 0, fmt.Sprintf("C01 template %d (CRLF / bare-CR document with blank-line runs) cut into two reads at every position", t), "quick")
	}
	for _, t := range []int64{10, 12, 59, 62, 83, 93} {
		cm(c08, "H_C08_tl", t, 0, fmt.Sprintf("TL[%d] (reference definitions at top level and inside containers) cut into two reads at every position", t), "quick")
	}
	cm(c08, "H_C08", 4, 0, "A(4), all read schedules", "thorough")
	cm(c08, "H_C08", 4, 1, "A(4), all fault points", "thorough")
	cm(c08, "H_C08", 103, 0, "F(3), all read schedules", "thorough")
	add(c08)

	// ---- C16
	c16 := &PropSpec{ID: "C16", Level: "model_checking", Assumptions: commonAssumptions, QuickSec: 170, ThoroughSec: 900,
		Explanation: "bounded symbolic execution: stream-parse + Rewrite the document, then parse every root block's Source alone with the same reference matcher; exactly one block, identical tree dump, StartOffset 0, StartLine 1"}
	for n := int64(1); n <= 3; n++ {
		cm(c16, "H_C16", 0, n, fmt.Sprintf("F(%d)", n), "quick")
	}
	cm(c16, "H_C16", 0, 4, "F(4)", "thorough")
	for _, i := range tlQuick {
		if i == 113 {
			continue // TL[113] shows known findings 2 and 3 on nearly every path (see known_findings.txt); TL[112] and TL[61] stand for it
		}
		cm(c16, "H_C16", 1, int64(i), fmt.Sprintf("TL[%d]", i), "quick")
	}
	for n := int64(1); n <= 2; n++ {
		cm(c16, "H_C16_cut", 0, n, fmt.Sprintf("F(%d), the document arriving in two reads cut at every position", n), "quick")
	}
	for _, i := range []int64{29, 39, 53} {
		cm(c16, "H_C16_cut", 6, i, fmt.Sprintf("TL[%d] with CRLF line endings, two reads cut at every position", i), "quick")
		cm(c16, "H_C16_cut", 7, i, fmt.Sprintf("TL[%d] with bare-CR line endings, two reads cut at every position", i), "quick")
	}
	cm(c16, "H_C16_cut", 0, 3, "F(3), two reads cut at every position", "thorough")
	for _, i := range []int64{36, 37, 38, 42, 43, 45, 46, 47, 50, 52, 55, 57, 58} {
		cm(c16, "H_C16", 1, i, fmt.Sprintf("TL[%d]", i), "thorough")
	}
	add(c16)

	// ---- C14
	c14 := &PropSpec{ID: "C14", Level: "model_checking", Assumptions: append([]string{"padding clause: a pad ending in CR is not combined with an input starting with LF (that forms a CRLF rather than prepending a blank line)", "final-newline clause compared in safe mode modulo line endings adjacent to tags outside <pre>"}, commonAssumptions...), QuickSec: 170, ThoroughSec: 900,
		Explanation: "bounded symbolic execution of Parse+Render on x and on crlf(x)/cr(x), pad.x, x.LF built in the harness; outputs compared (one solver query per comparison) after mapping copied line endings; offsets and lines shifted exactly"}
	for n := int64(1); n <= 3; n++ {
		cm(c14, "H_C14_eol", 0, n, fmt.Sprintf("line-ending clause, F(%d) without CR", n), "quick")
		cm(c14, "H_C14_final", 0, n, fmt.Sprintf("final-newline clause, F(%d)", n), "quick")
	}
	cm(c14, "H_C14_pad", 0, 1, "padding clause, F(1) x 5 pads", "quick")
	cm(c14, "H_C14_pad", 0, 2, "padding clause, F(2) x 5 pads", "quick")
	cm(c14, "H_C14_pad", 0, 3, "padding clause, F(3) x 5 pads", "thorough")
	for i := int64(0); i < 19; i++ {
		if i != 10 && i != 11 { // templates 10 and 11 end in a line ending: outside the final-newline clause (twin: vacuous)
			cm(c14, "H_C14_final", 4, i, fmt.Sprintf("final-newline clause, C14 template %d", i), "quick")
		}
		cm(c14, "H_C14_eol", 4, i, fmt.Sprintf("line-ending clause, C14 template %d", i), "quick")
	}
	for _, i := range tlMultiLine {
		cm(c14, "H_C14_eol", 1, int64(i), fmt.Sprintf("line-ending clause, TL[%d]", i), "quick")
	}
	for _, i := range []int64{0, 5, 7, 8, 18, 22, 26, 30, 32, 35, 37, 43, 45, 48, 49, 54, 70, 86, 104, 105, 106, 107, 108, 109, 110} {
		cm(c14, "H_C14_final", 1, i, fmt.Sprintf("final-newline clause, TL[%d]", i), "quick")
	}
	cm(c14, "H_C14_final", 1, 21, "final-newline clause, TL[21]", "thorough")
	cm(c14, "H_C14_final", 1, 41, "final-newline clause, TL[41]", "thorough")
	for n := int64(1); n <= 2; n++ {
		cm(c14, "H_C14_eol_stream", 0, n, fmt.Sprintf("line-ending clause through the streaming parser, F(%d), input cut into two reads at every position", n), "quick")
	}
	for _, i := range []int64{3, 5, 8, 9, 10, 11} {
		cm(c14, "H_C14_eol_stream", 4, i, fmt.Sprintf("line-ending clause through the streaming parser, C14 template %d, every cut", i), "quick")
	}
	cm(c14, "H_C14_eol_stream", 0, 3, "line-ending clause through the streaming parser, F(3), every cut", "thorough")
	cm(c14, "H_C14_eol", 0, 4, "line-ending clause, F(4)", "thorough")
	cm(c14, "H_C14_final", 0, 4, "final-newline clause, F(4)", "thorough")
	add(c14)

	// ---- C09
	c09 := &PropSpec{ID: "C09", Level: "model_checking", Assumptions: append([]string{"quote clause uses the marker '> ' on every line (a bare '>' would consume one column of D's own indentation)", "list clause: a one-item list is tight, so <p> tags are removed from both sides before comparison; markers -, +, *, 1., 9), 12. and N in 1..4 are solver variables", "compared on the safe-mode rendering modulo line endings adjacent to tags outside <pre>"}, commonAssumptions...), QuickSec: 170, ThoroughSec: 900,
		Explanation: "bounded symbolic execution of Parse+Render on D and on its quoted / list-indented form built in the harness; single-root and HTML-relation clauses asserted on symbolic outputs"}
	for n := int64(1); n <= 3; n++ {
		cm(c09, "H_C09_quote", 0, n, fmt.Sprintf("quote clause, tab-free F(%d)", n), "quick")
	}
	for n := int64(1); n <= 3; n++ {
		cm(c09, "H_C09_quote_bare", 0, n, fmt.Sprintf("quote clause with the bare marker '>', tab-free F(%d) without a line starting with a space", n), "quick")
	}
	for _, i := range []int64{0, 2, 9, 14, 20, 29, 33, 53} {
		cm(c09, "H_C09_quote_bare", 1, i, fmt.Sprintf("quote clause with the bare marker '>', TL[%d]", i), "quick")
	}
	cm(c09, "H_C09_quote_bare", 0, 4, "quote clause with the bare marker '>', F(4)", "thorough")
	cm(c09, "H_C09_list", 0, 1, "list clause, F(1) x 6 markers x 4 widths", "quick")
	cm(c09, "H_C09_list", 0, 2, "list clause, F(2) x 6 markers x 4 widths", "quick")
	cm(c09, "H_C09_list", 0, 3, "list clause, F(3) x 6 markers x 4 widths", "thorough")
	for _, i := range []int64{9, 13, 14, 20, 29, 33, 34, 39, 40, 51, 53, 59, 61, 73, 76, 82, 83, 84, 87, 88, 89, 92} {
		cm(c09, "H_C09_quote", 1, i, fmt.Sprintf("quote clause, multi-line template TL[%d]", i), "quick")
	}
	for _, i := range []int64{9, 20, 33, 39, 59, 83, 87, 89} {
		cm(c09, "H_C09_list", 1, i, fmt.Sprintf("list clause, multi-line template TL[%d]", i), "quick")
	}
	for _, i := range []int64{97, 98, 102, 108, 109, 110, 111} {
		cm(c09, "H_C09_quote", 1, i, fmt.Sprintf("quote clause, template TL[%d]", i), "quick")
	}
	for _, i := range []int64{108, 110} { // (TL[109]: every line starts with a space - outside the bare-marker clause; twin: vacuous)
		cm(c09, "H_C09_quote_bare", 1, i, fmt.Sprintf("quote clause with the bare marker '>', TL[%d] (whitespace-only line inside code)", i), "quick")
	}
	for _, i := range []int64{9, 13, 14, 20, 84, 88, 89, 108} {
		cm(c09, "H_C09_quote", 6, i, fmt.Sprintf("quote clause, TL[%d] with CRLF line endings", i), "quick")
		cm(c09, "H_C09_quote", 7, i, fmt.Sprintf("quote clause, TL[%d] with bare-CR line endings", i), "quick")
	}
	for _, i := range []int64{9} { // (TL[13], TL[84] contain a blank line - outside the list clause; twin: vacuous)
		cm(c09, "H_C09_list", 7, i, fmt.Sprintf("list clause, TL[%d] with bare-CR line endings", i), "quick")
	}
	cm(c09, "H_C09_quote", 8, 10, "quote clause, definition + full reference with a 10-line label of 989 characters (below the 999 limit)", "quick")
	cm(c09, "H_C09_list", 8, 10, "list clause, the same document x 6 markers x 4 widths", "quick")
	cm(c09, "H_C09_quote", 8, 3, "quote clause, 3-line label of 995 characters", "thorough")
	cm(c09, "H_C09_quote", 8, 30, "quote clause, 30-line label", "thorough")
	for _, i := range []int64{42, 50, 36, 22, 6} {
		cm(c09, "H_C09_quote", 1, i, fmt.Sprintf("quote clause, template TL[%d]", i), "thorough")
	}
	cm(c09, "H_C09_quote", 0, 4, "quote clause, tab-free F(4)", "thorough")
	add(c09)

	// ---- C11
	c11 := &PropSpec{ID: "C11", Level: "model_checking", Assumptions: append([]string{"inputs are single paragraphs built from units: '*', '_', an ASCII letter/digit (symbolic), space, an ASCII punctuation byte from #$%()+,-./:;=?@^{|}~ (symbolic), (second bound) U+00A0, U+2014, U+00E9, and (third bound) any character of U+0080..U+00FF (symbolic); unit sequences that Parse does not read as exactly one paragraph are excluded (assume)", "unit harness H_C11_stack: processEmphasis is run from a directly constructed inlineState (k runs of '*' or '_' of length 1..3 separated by one-byte text nodes, arbitrary can-open / can-close flags); every such stack is the parse state of some paragraph, since the flanking of a run depends only on its two neighbour characters", "the reference is the spec's process-emphasis procedure without openers_bottom, validated during design on 108 of the spec's emphasis examples"}, commonAssumptions...), QuickSec: 170, ThoroughSec: 900,
		Explanation: "bounded symbolic execution of Parse+Render on every unit sequence up to the bound (unit classes are solver-enumerated, bytes within a class symbolic), compared byte for byte with the output of a transcription of the spec's delimiter-run algorithm"}
	for n := int64(1); n <= 6; n++ {
		cm(c11, "H_C11", n, 5, fmt.Sprintf("all sequences of %d units over the 5 ASCII classes", n), "quick")
	}
	for n := int64(1); n <= 5; n++ {
		cm(c11, "H_C11", n, 8, fmt.Sprintf("all sequences of %d units over 8 classes (incl. NBSP, EM DASH, e-acute)", n), "quick")
	}
	for n := int64(7); n <= 8; n++ {
		cm(c11, "H_C11", n, 3, fmt.Sprintf("all sequences of %d units over {*, _, letter/digit} (delimiter-dense strings)", n), "quick")
	}
	cm(c11, "H_C11", 7, 4, "all sequences of 7 units over {*, _, letter/digit, space}", "quick")
	for n := int64(1); n <= 4; n++ {
		cm(c11, "H_C11", n, 20, fmt.Sprintf("all sequences of %d units over {*, _, letter/digit, space, any character of U+0080..U+00FF (symbolic: control, NBSP, punctuation, symbol, letter)}", n), "quick")
	}
	cm(c11, "H_C11", 5, 20, "all sequences of 5 units over {*, _, letter/digit, space, any character of U+0080..U+00FF}", "thorough")
	for k := int64(1); k <= 4; k++ {
		cm(c11, "H_C11_stack", k, 0, fmt.Sprintf("processEmphasis from every delimiter stack of %d entries (character, length 1..3 enumerated; can-open / can-close flags symbolic)", k), "quick")
	}
	cm(c11, "H_C11_stack", 3, 1, "processEmphasis from every stack of 3 entries with stackBottom in 0..2", "quick")
	cm(c11, "H_C11_stack", 4, 1, "processEmphasis from every stack of 4 entries with stackBottom in 0..2", "quick")
	cm(c11, "H_C11_stack", 5, 2, "processEmphasis from every stack of 5 '*' entries that can open or close", "quick")
	cm(c11, "H_C11_stack", 5, 3, "processEmphasis from every stack of 5 '_' entries that can open or close", "quick")
	cm(c11, "H_C11_stack", 5, 0, "processEmphasis from every delimiter stack of 5 entries", "thorough")
	cm(c11, "H_C11_stack", 6, 2, "processEmphasis from every stack of 6 '*' entries that can open or close", "thorough")
	cm(c11, "H_C11_stack", 6, 3, "processEmphasis from every stack of 6 '_' entries that can open or close", "thorough")
	cm(c11, "H_C11", 9, 3, "all sequences of 9 units over {*, _, letter/digit}", "thorough")
	cm(c11, "H_C11", 8, 4, "all sequences of 8 units over {*, _, letter/digit, space}", "thorough")
	cm(c11, "H_C11", 7, 5, "all sequences of 7 units over the 5 ASCII classes", "thorough")
	cm(c11, "H_C11", 6, 8, "all sequences of 6 units over 8 classes", "thorough")
	cm(c11, "H_C11", 8, 5, "all sequences of 8 units over the 5 ASCII classes", "thorough")
	add(c11)

	// ---- C12
	c12 := &PropSpec{ID: "C12", Level: "model_checking", Assumptions: append([]string{"label alphabet {a, A, s, k, U+00DF, U+1E9E, U+212A, space, tab, LF, U+00A0, escaped ]} with case folding written out from CaseFolding.txt; case folding of other code points is trusted to golang.org/x/text", "at most one line ending per label (two could form a blank line)"}, commonAssumptions...), QuickSec: 170, ThoroughSec: 900,
		Explanation: "bounded symbolic execution of Parse on use/definition documents whose labels are solver-chosen unit sequences; resolves <=> reference-normalised labels equal; first-definition-wins over all orders and container placements; closure clauses (link keys in map, keys normalised, map equals fresh Extract) on F(n) and link templates"}
	for _, k := range [][2]int64{{1, 1}, {2, 1}, {1, 2}, {2, 2}} {
		cm(c12, "H_C12_norm", k[0], k[1], fmt.Sprintf("labels of %d and %d units over a 13-member alphabet x 4 reference forms (shortcut, collapsed, full, full image)", k[0], k[1]), "quick")
	}
	cm(c12, "H_C12_norm", 3, 2, "labels of 3 and 2 units", "thorough")
	cm(c12, "H_C12_norm", 2, 3, "labels of 2 and 3 units", "thorough")
	for o := int64(0); o < 6; o++ {
		cm(c12, "H_C12_first", o, 0, fmt.Sprintf("order %d of (def1, def2, use) x 5^3 label variants x 3^3 container placements", o), "quick")
	}
	for c, nm := range []string{"nested block quotes", "nested list items", "list item inside a block quote"} {
		cm(c12, "H_C12_nested", int64(c), 0, "two definitions inside one root container ("+nm+") at depths 1..2 x 4^3 label variants x use before/after", "quick")
	}
	for f, nm := range []string{"full reference", "image reference", "definition"} {
		cm(c12, "H_C12_multiline", int64(f), 0, nm+" whose label continues on the next line inside a block quote / list item (4 container spellings, letters free)", "quick")
	}
	cm(c12, "H_C12_fallback", 0, 0, "shortcut reference followed by a '[' that does not begin a link label (4 tails x 4 label variants)", "quick")
	cm(c12, "H_C12_fallback", 1, 0, "shortcut image followed by a '[' that does not begin a link label", "quick")
	for _, n := range []int64{998, 999, 1000, 1001} {
		cm(c12, "H_C12_limit", n, 0, fmt.Sprintf("label of %d characters (plain, ending in an escaped bracket, padded with spaces): definition, shortcut and full reference", n), "quick")
	}
	for e, nm := range []string{"LF", "CRLF", "bare CR"} {
		cm(c12, "H_C12_adjacent", int64(e), 0, "two definitions on adjacent lines of one paragraph ("+nm+"), optional block quote / title / trailing text line, competing or distinct labels", "quick")
	}
	for n := int64(1); n <= 3; n++ {
		cm(c12, "H_C12_closure", 0, n, fmt.Sprintf("closure clauses on F(%d)", n), "quick")
	}
	cm(c12, "H_C12_nul", 3, 0, "labels of 3 units over {NUL, a, A, space} on both sides", "quick")
	cm(c12, "H_C12_nul", 4, 0, "labels of 4 units over {NUL, a, A, space} on both sides", "thorough")
	cm(c12, "H_C12_long", 200, 0, "label of 200 x U+0390 + a free letter (400 bytes as written, 1 200 bytes after case folding)", "quick")
	cm(c12, "H_C12_long", 480, 0, "label of 480 x U+0390 + a free letter (961 characters as written)", "thorough")
	for _, i := range []int64{5, 6, 8, 10, 11, 12, 13, 14, 15, 83, 84, 85, 89, 93, 95, 96} {
		cm(c12, "H_C12_closure", 1, i, fmt.Sprintf("closure clauses on TL[%d]", i), "quick")
	}
	cm(c12, "H_C12_closure", 1, 42, "closure clauses on TL[42]", "thorough")
	cm(c12, "H_C12_closure", 1, 58, "closure clauses on TL[58]", "thorough")
	cm(c12, "H_C12_closure", 0, 4, "closure clauses on F(4)", "thorough")
	add(c12)

	// ---- C18
	c18 := &PropSpec{ID: "C18", Level: "model_checking", Assumptions: append([]string{"trees: the first root block / all root blocks of six fixed documents, and fully virtual trees of depth <= 2 (<= 9 nodes) or depth 3 (<= 5 nodes) whose child counts are solver variables; every Pre/Post return value and the nil-ness of Pre and Post are solver variables"}, commonAssumptions...), QuickSec: 170, ThoroughSec: 900,
		Explanation: "bounded symbolic execution of Walk with callbacks returning solver-chosen booleans; the recorded event trace (with cursor contents) is replayed against a recursive reference walker driven by the same decisions"}
	for d := int64(0); d < 6; d++ {
		cm(c18, "H_C18", 0, d, fmt.Sprintf("real tree of document %d, all callback policies", d), "quick")
		cm(c18, "H_C18", 1, d, fmt.Sprintf("virtual root over the root blocks of document %d (custom ChildCount/Child), all policies", d), "quick")
	}
	for _, d := range []int64{0, 2} {
		cm(c18, "H_C18", 5, d, fmt.Sprintf("real tree of document %d with only ChildCount user-supplied (hides children of emphasis/links), all policies", d), "quick")
		cm(c18, "H_C18", 6, d, fmt.Sprintf("real tree of document %d with only Child user-supplied (reversed order), all policies", d), "quick")
	}
	cm(c18, "H_C18", 2, 1, "virtual trees of depth 1, all shapes and policies", "quick")
	cm(c18, "H_C18", 2, 2, "virtual trees of depth 2 (<= 9 nodes), all shapes and policies", "quick")
	cm(c18, "H_C18", 2, 53, "virtual trees of depth 3 with <= 5 nodes, all shapes and policies", "quick")
	cm(c18, "H_C18", 3, 66, "wide real tree: a list of 66 items (265 nodes, Walk's stack grows past 64 frames); one callback at a solver-chosen position returns false", "quick")
	cm(c18, "H_C18", 4, 70, "deep real tree: 70 nested block quotes; one callback at a solver-chosen position returns false", "quick")
	cm(c18, "H_C18", 7, 300, "wide real tree: a list of 300 items (1 201 nodes; past 256 and 1 024 stack frames), the false-returning callback from a menu of 8 positions", "quick")
	cm(c18, "H_C18", 7, 700, "wide real tree: a list of 700 items, menu of 8 positions", "quick")
	cm(c18, "H_C18", 8, 140, "deep real tree: 140 nested block quotes, menu of 8 positions", "quick")
	cm(c18, "H_C18", 8, 300, "deep real tree: 300 nested block quotes, menu of 8 positions", "quick")
	cm(c18, "H_C18", 3, 140, "wide real tree: a list of 140 items", "thorough")
	cm(c18, "H_C18", 3, 300, "wide real tree: a list of 300 items", "thorough")
	cm(c18, "H_C18", 2, 63, "virtual trees of depth 3 with <= 6 nodes", "thorough")
	cm(c18, "H_C18", 2, 73, "virtual trees of depth 3 with <= 7 nodes", "thorough")
	add(c18)

	// ---- C06
	c06 := &PropSpec{ID: "C06", Level: "model_checking", Assumptions: append([]string{"abstract documents are produced by the generator of harness/commonmark/gen.go (DESIGN.md Appendix D) under a node budget (blocks + inline atoms); every spelling choice of the serialiser is a solver variable; 'reduced menus' restrict some choice lists (documented in gen.go), 'full menus' use all of them", "expected HTML follows the CommonMark 0.30 mapping with this renderer's pinned conventions (character references verbatim, <br>, no closing slash), compared modulo line endings adjacent to tags outside <pre>", "constructs whose canonical spelling is ambiguous (lazy continuation, HTML block types 1-5/7, brackets in link text, adjacent same-type lists, ...) are not generated"}, commonAssumptions...), QuickSec: 200, ThoroughSec: 1000,
		Explanation: "bounded symbolic execution of Parse+Render on the canonical serialisation of every abstract document within the node budget, with symbolic letters/punctuation/code bytes; rendered HTML compared with the HTML computed from the abstract document"}
	for k := int64(1); k <= 4; k++ {
		cm(c06, "H_C06_esc", k, 0, fmt.Sprintf("%d arbitrary backslash-escaped ASCII punctuation bytes", k), "quick")
		cm(c06, "H_C06_verbatim", k, 0, fmt.Sprintf("fenced code with %d free content bytes", k), "quick")
		cm(c06, "H_C06_verbatim", k, 1, fmt.Sprintf("indented code with %d free content bytes", k), "quick")
	}
	for f, nm := range []string{"top level", "'>' block quote", "'-' list item", "'> ' block quote", "block quote inside a list item"} {
		cm(c06, "H_C06_tabs", int64(f), 0, "tab/column arithmetic: k spaces, one or two tabs, m spaces (k, m in 0..3) behind "+nm, "quick")
	}
	for f, nm := range []string{"indented code", "fenced code", "an ATX heading", "a block quote", "a paragraph"} {
		cm(c06, "H_C06_loose", int64(f), 0, "tight/loose: two-item list whose first item starts with "+nm+"; blank line between items and second block in the item are solver variables", "quick")
	}
	for ctx, nm := range []string{"double-quoted inline link title", "single-quoted definition title", "parenthesised image title", "link text", "info string of a tilde fence", "emphasis content", "ATX heading content", "<...> link destination"} {
		for k := int64(1); k <= 3; k++ {
			tier := "quick"
			if ctx == 7 && k == 3 {
				tier = "thorough"
			}
			cm(c06, "H_C06_esc_ctx", k, int64(ctx), fmt.Sprintf("%d arbitrary backslash-escaped ASCII punctuation bytes in a %s", k, nm), tier)
		}
		cm(c06, "H_C06_esc_ctx", 4, int64(ctx), "4 arbitrary backslash-escaped ASCII punctuation bytes in a "+nm, "thorough")
	}
	for f, nm := range []string{"a bullet item", "a block quote", "an ordered item", "a block quote inside a bullet item"} {
		for k := int64(1); k <= 2; k++ {
			cm(c06, "H_C06_verbatim_in", k, int64(f), fmt.Sprintf("fenced code inside %s with %d free content bytes (incl. a leading TAB)", nm, k), "quick")
		}
		cm(c06, "H_C06_verbatim_in", 3, int64(f), "fenced code inside "+nm+" with 3 free content bytes", "thorough")
	}
	for f, nm := range []string{"top level", "'> '", "' > '", "a '- ' list item"} {
		cm(c06, "H_C06_codetrail", int64(f), 0, "indented code followed by a whitespace-only line of three free bytes over {space, tab}, a blank line and a paragraph, behind "+nm, "quick")
	}
	for f, nm := range []string{"top level", "'> '", "'>'", "'- ' list item", "'1. ' list item", "' > '"} {
		cm(c06, "H_C06_markertab", int64(f), 0, "tab between a list marker ('-' or '7.') and the item content behind "+nm+": content offset from the absolute tab stop; second line at the offset or one column short", "quick")
	}
	for f, nm := range []string{"an ATX heading", "a thematic break", "an empty fenced code block", "a fenced code block", "a paragraph", "a setext heading"} {
		cm(c06, "H_C06_loose_nested", int64(f), 0, "tight/loose across nesting levels: outer two-item list, nested one-item list holding a paragraph and "+nm+"; blank line inside the nested item and between the outer items are solver variables", "quick")
	}
	cm(c06, "H_C06", 1, 0, "documents of <= 1 node, LF, reduced menus", "quick")
	cm(c06, "H_C06", 2, 0, "documents of <= 2 nodes, LF, reduced menus", "quick")
	cm(c06, "H_C06", 2, 1, "documents of <= 2 nodes, CRLF, reduced menus", "quick")
	cm(c06, "H_C06", 2, 2, "documents of <= 2 nodes, LF, full menus", "thorough")
	cm(c06, "H_C06", 3, 0, "documents of <= 3 nodes, LF, reduced menus", "quick")
	cm(c06, "H_C06", 3, 4, "documents of <= 3 nodes, LF, reduced menus, plain inline content (words and line breaks only)", "thorough")
	cm(c06, "H_C06", 3, 1, "documents of <= 3 nodes, CRLF, reduced menus", "thorough")
	cm(c06, "H_C06", 3, 2, "documents of <= 3 nodes, LF, full menus", "thorough")
	cm(c06, "H_C06", 4, 0, "documents of <= 4 nodes, LF, reduced menus", "thorough")
	add(c06)

	fm := func(p *PropSpec, h string, a, b int64, bound, tier string) {
		p.Jobs = append(p.Jobs, JobSpec{Pkg: pkgFmt, Harness: h, Params: []int64{a, b}, Bound: bound, Tier: tier})
	}
	// ---- C19
	c19 := &PropSpec{ID: "C19", Level: "other", Assumptions: append([]string{"interleavings are not explored: the schedule quantifier is discharged by non-interference - if no call writes to anything that exists before it starts (other than properly synchronised sync.Once initialisation), concurrent calls cannot race and equal the sequential result; the engine establishes that premise for every input in the bound by making every pre-existing object read-only (vfreeze) and reporting any store into one", "races inside the Go runtime, in caller-supplied writers or FilterTag functions are outside the claim", "a frozen-write violation has no native counterpart and is reported from the engine's observation"}, commonAssumptions...), QuickSec: 200, ThoroughSec: 900,
		Explanation: "write-confinement premise of a non-interference argument, established by bounded symbolic execution: Parse the input, freeze the whole heap (tree, Source, reference map, renderer values, package-level tables), then Render in 12 configurations twice, Walk, Format twice; two Parse calls with all pre-existing state frozen; every store into a frozen object on any feasible path is a violation; repeatability of results asserted"}
	for n := int64(1); n <= 3; n++ {
		cm(c19, "H_C19", 0, n, fmt.Sprintf("Render x12 x2 + Walk on frozen trees of F(%d)", n), "quick")
		fm(c19, "H_C19_format", n, 0, fmt.Sprintf("Format x2 on frozen trees of F(%d)", n), "quick")
	}
	for d := int64(0); d < 6; d++ {
		cm(c19, "H_C19_reentrant", d, 0, fmt.Sprintf("document %d: a walk and a render nested inside a callback of another walk / render of the same tree (after an aborted walk), nesting point solver-chosen", d), "quick")
	}
	for i := int64(0); i < 6; i++ {
		fm(c19, "H_C19_format_fault", i, 24, fmt.Sprintf("fixed document %d: Format healthy, Format into a writer failing at call k in 1..24, Format healthy again (frozen tree); the third equals the first", i), "quick")
	}
	cm(c19, "H_C19_parse_refs", 0, 0, "Parse of two documents with reference definitions and uses (label letters free) with frozen globals", "quick")
	cm(c19, "H_C19_parse", 1, 1, "Parse(in2), Parse(in1), Parse(in2) with frozen globals, |in1|=|in2|=1", "quick")
	cm(c19, "H_C19_parse", 2, 1, "same, |in1|=2, |in2|=1", "quick")
	cm(c19, "H_C19_parse", 1, 2, "same, |in1|=1, |in2|=2", "quick")
	cm(c19, "H_C19_parse", 2, 2, "same, |in1|=|in2|=2", "thorough")
	for _, i := range []int64{5, 6, 8, 10, 18, 22, 26, 29, 33, 40, 48} {
		cm(c19, "H_C19", 1, i, fmt.Sprintf("Render/Walk on frozen trees of TL[%d]", i), "quick")
	}
	for _, i := range []int64{0, 1, 2, 5, 9, 14, 15, 19} {
		cm(c19, "H_C19", 2, i, fmt.Sprintf("Render/Walk on frozen trees of attribute template %d", i), "quick")
	}
	cm(c19, "H_C19", 0, 4, "Render/Walk on frozen trees of F(4)", "thorough")
	fm(c19, "H_C19_format", 4, 0, "Format on frozen trees of F(4)", "thorough")
	add(c19)

	// ---- C20
	c20 := &PropSpec{ID: "C20", Level: "model_checking", Assumptions: append([]string{"canonical-style documents: the C06 generator restricted to the construct set fixed in DESIGN.md §C20 (no tabs/CRLF, '-' bullets, backtick fences, double-quoted titles, escaped punctuation from the formatter's escape set plus neutral punctuation)", "writer faults: the k-th Write/WriteString call fails, k a solver variable in 1..K; both io.Writer-only and io.StringWriter writers"}, commonAssumptions...), QuickSec: 200, ThoroughSec: 1000,
		Explanation: "bounded symbolic execution of Parse+Format on F(n) with healthy and failing writers (error identity, no write after error, determinism, tree frozen), and of Format(Parse(d)) for every canonical document d within the node budget: rendered HTML preserved and a second Format reproduces the text byte for byte"}
	for n := int64(1); n <= 3; n++ {
		fm(c20, "H_C20_total", n, 6, fmt.Sprintf("F(%d), writer failing at call k in 1..6", n), "quick")
	}
	fm(c20, "H_C20_total", 4, 12, "F(4), writer failing at call k in 1..12", "thorough")
	for _, k := range []int64{1, 2, 9} {
		fm(c20, "H_C20_marker", k, 0, fmt.Sprintf("ordered item with a %d-digit number (digits free) + second paragraph", k), "quick")
	}
	fm(c20, "H_C20_marker", 9, 1, "ordered item with a 9-digit number + fenced code", "thorough")
	fm(c20, "H_C20_marker", 9, 2, "ordered item with a 9-digit number + nested bullet list", "thorough")
	for k := int64(3); k <= 8; k++ {
		fm(c20, "H_C20_marker", k, 0, fmt.Sprintf("ordered item with a %d-digit number + second paragraph", k), "thorough")
	}
	fm(c20, "H_C20_marker", 9, 3, "ordered item with a 9-digit number + block quote", "thorough")
	for _, nn := range [][2]int64{{0, 3}, {1, 4}, {2, 5}, {3, 5}, {0, 6}} {
		fm(c20, "H_C20_fence", nn[0], nn[1], fmt.Sprintf("fenced code whose content lines are %d and %d free bytes over {backtick, space, tab, a}", nn[0], nn[1]), "quick")
	}
	fm(c20, "H_C20_fence", 5, 6, "fenced code whose content lines are 5 and 6 free bytes over {backtick, space, tab, a}", "thorough")
	for cont := int64(0); cont <= 4; cont++ {
		fm(c20, "H_C20_esc", 3, cont, fmt.Sprintf("3 escaped punctuation bytes (free) in context %d (top level / bullet / ordered / quote / continuation line)", cont), "quick")
		fm(c20, "H_C20_esc", 4, cont, fmt.Sprintf("4 escaped punctuation bytes in context %d", cont), "thorough")
	}
	for o := int64(0); o < 3; o++ {
		for i := int64(0); i < 3; i++ {
			fm(c20, "H_C20_nest", o, i, fmt.Sprintf("nesting matrix: container %d inside container %d (0 quote, 1 bullet, 2 ordered) x 3 contents with blank lines", i, o), "quick")
		}
	}
	for o, nm := range []string{"a paragraph", "an ATX heading", "a fenced code block", "a block quote", "the paragraph of a tight bullet item (nested)", "the same inside a block quote"} {
		fm(c20, "H_C20_loose_after", int64(o), 0, "loose two-item list (bullet or ordered from 2) directly after "+nm, "quick")
	}
	for o, nm := range []string{"a block quote", "a bullet item", "an ordered item", "a block quote inside a bullet item"} {
		fm(c20, "H_C20_span", int64(o), 0, "paragraph inside "+nm+" with one of eight inline constructs (emphasis, strong, nested, link text, code span, image, raw tag) continuing on the second line", "quick")
	}
	for o, nm := range []string{"a bullet list", "an ordered list", "a bullet list inside a block quote", "an ordered list inside a block quote"} {
		fm(c20, "H_C20_tight", int64(o), 0, "tight two-item list ("+nm+") whose first item holds a paragraph directly followed by one of eight blocks (nested lists, quote, fenced code, code + paragraph, heading, thematic break)", "quick")
	}
	for i := int64(0); i < 6; i++ {
		fm(c20, "H_C20_fault", i, 24, fmt.Sprintf("fixed document %d, writer failing at call k in 1..24, both writer kinds", i), "quick")
	}
	fm(c20, "H_C20_canon", 1, 0, "canonical documents of <= 1 node, reduced menus", "quick")
	fm(c20, "H_C20_canon", 2, 0, "canonical documents of <= 2 nodes, reduced menus", "quick")
	fm(c20, "H_C20_canon", 2, 2, "canonical documents of <= 2 nodes, full menus", "quick")
	fm(c20, "H_C20_canon", 3, 0, "canonical documents of <= 3 nodes, reduced menus", "thorough")
	fm(c20, "H_C20_canon", 3, 2, "canonical documents of <= 3 nodes, full menus", "thorough")
	add(c20)
	return m
}
