package main

import "fmt"

// number of templates in harness/commonmark/h_tl.go
const nTL = 59

// quick-tier subset of TL (at most two holes, cheap)
var tlQuick = []int{0, 1, 2, 3, 5, 6, 7, 8, 9, 10, 11, 12, 13, 14, 15, 16, 17, 18, 19, 20, 22, 23, 24, 25, 27, 28, 29, 30, 32, 33, 34, 35, 39, 40, 44, 48, 49, 53, 54}

func fJobs(h string, quickN []int, thoroughN []int, second int64, clausePanic string) []JobSpec {
	var js []JobSpec
	for _, n := range quickN {
		js = append(js, JobSpec{Pkg: pkgCM, Harness: h, Params: []int64{0, int64(n)}, Bound: fmt.Sprintf("F(%d): all byte strings of length %d", n, n), Tier: "quick", Cert: 16})
	}
	for _, n := range thoroughN {
		js = append(js, JobSpec{Pkg: pkgCM, Harness: h, Params: []int64{0, int64(n)}, Bound: fmt.Sprintf("F(%d): all byte strings of length %d", n, n), Tier: "thorough", Cert: 16})
	}
	return js
}

func tlJobs(h string) []JobSpec {
	var js []JobSpec
	q := map[int]bool{}
	for _, i := range tlQuick {
		q[i] = true
	}
	for i := 0; i < nTL; i++ {
		t := "thorough"
		if q[i] {
			t = "quick"
		}
		js = append(js, JobSpec{Pkg: pkgCM, Harness: h, Params: []int64{1, int64(i)}, Bound: fmt.Sprintf("TL[%d]: template %d of the shared template library with unconstrained holes", i, i), Tier: t})
	}
	return js
}

var commonAssumptions = []string{
	"go/ssa lowering of the current /repo working tree (x/tools v0.29.0) is faithful; the symgo interpreter implements SSA semantics (validated on every run by replaying sampled paths natively and comparing digests)",
	"summaries: internal/bytealg.{IndexByte,IndexByteString,Index,IndexString,Count,CountString,Equal,Compare,MakeNoZero}, internal/abi.NoEscape, sync.Mutex/Once/atomic (sequential), fmt.Errorf/Sprintf (opaque), unsafe.String/SliceData (copying)",
	"package initialisers of the library, bytes, strings, unicode, utf8, html, strconv, io, x/text, x/net/html/atom are executed concretely by the interpreter; other packages' globals are poisoned",
	"z3 4.8.12 verdicts (unknown/timeout is never counted as unsat); single-byte queries share verdicts through a cache keyed by their solution set",
	"inputs outside the stated bounds (longer strings not matching a template) are outside the claim",
}

func treeSpec(id, h, expl string, streamH string) *PropSpec {
	p := &PropSpec{ID: id, Level: "model_checking", Explanation: expl, Assumptions: commonAssumptions, QuickSec: 170, ThoroughSec: 1500}
	p.Jobs = append(p.Jobs, fJobs(h, []int{1, 2, 3}, []int{4}, 0, "")...)
	p.Jobs = append(p.Jobs, tlJobs(h)...)
	if streamH != "" {
		p.Jobs = append(p.Jobs, JobSpec{Pkg: pkgCM, Harness: streamH, Params: []int64{0, 3}, Bound: "F(3) through the streaming entry point + Extract + Rewrite", Tier: "quick"})
	}
	return p
}

func propSpecs() map[string]*PropSpec {
	m := map[string]*PropSpec{}
	add := func(p *PropSpec) { m[p.ID] = p }

	c01 := &PropSpec{ID: "C01", Level: "model_checking", Assumptions: commonAssumptions, QuickSec: 170, ThoroughSec: 1500,
		Explanation: "bounded symbolic execution of Parse and of NewBlockParser/NextBlock on symbolic inputs; tiling, offset, line, Source, aliasing and no-write clauses asserted on every path"}
	for _, e := range []int64{0, 1} {
		name := "in-memory Parse"
		if e == 1 {
			name = "streaming NextBlock (one-shot reader)"
		}
		for n := int64(1); n <= 3; n++ {
			c01.Jobs = append(c01.Jobs, JobSpec{Pkg: pkgCM, Harness: "H_C01_F", Params: []int64{n, e}, Bound: fmt.Sprintf("F(%d) via %s", n, name), Tier: "quick", Cert: 16})
		}
		c01.Jobs = append(c01.Jobs, JobSpec{Pkg: pkgCM, Harness: "H_C01_F", Params: []int64{4, e}, Bound: fmt.Sprintf("F(4) via %s", name), Tier: "thorough", Cert: 16})
		for i := int64(0); i < 10; i++ {
			t := "quick"
			if i >= 7 {
				t = "thorough"
			}
			c01.Jobs = append(c01.Jobs, JobSpec{Pkg: pkgCM, Harness: "H_C01_T", Params: []int64{i, e}, Bound: fmt.Sprintf("C01 template %d via %s", i, name), Tier: t})
		}
	}
	add(c01)
	add(treeSpec("C02", "H_C02", "bounded symbolic execution of Parse; span validity, nesting, sibling order, root-end/prefix and UTF-8 boundary clauses asserted for every node on every path", "H_C02s"))
	add(treeSpec("C03", "H_C03", "bounded symbolic execution of Parse; leaf cover counted per source byte; no-dup and no-loss clauses asserted on every path", ""))
	add(treeSpec("C05", "H_C05", "bounded symbolic execution of Parse; node grammar table and accessor ranges asserted for every node on every path", "H_C05s"))
	add(treeSpec("C13", "H_C13", "bounded symbolic execution of Parse; construct shape table evaluated on Source[span] (symbolic bytes) for every node on every path", ""))
	c15 := &PropSpec{ID: "C15", Level: "model_checking", Assumptions: append([]string{"a 'line' is n bytes without LF/CR followed by one of: nothing, LF, CR, CRLF; leading indentation already stripped (first byte not space/tab), as the recognisers' callers guarantee"}, commonAssumptions...), QuickSec: 170, ThoroughSec: 1500,
		Explanation: "unit-level bounded symbolic execution of the unexported recognisers and classifiers against reference recognisers transcribed from the CommonMark 0.30 text, plus the same decisions observed through Parse; NormalizeURI and IsEmailAddress against RFC 3986 character classes / the spec's regular expression"}
	j := func(h string, a int64, bound, tier string) {
		c15.Jobs = append(c15.Jobs, JobSpec{Pkg: pkgCM, Harness: h, Params: []int64{a, 0}, Bound: bound, Tier: tier})
	}
	j("H_C15_classes", 0, "all 256 byte values (exhaustive)", "quick")
	for _, h := range []string{"H_C15_thematic", "H_C15_atx", "H_C15_setext", "H_C15_fence"} {
		for n := int64(0); n <= 6; n++ {
			j(h, n, fmt.Sprintf("all lines with %d body bytes x 4 line endings", n), "quick")
		}
		j(h, 7, "all lines with 7 body bytes x 4 line endings", "thorough")
		j(h, 8, "all lines with 8 body bytes x 4 line endings", "thorough")
	}
	for n := int64(0); n <= 7; n++ {
		j("H_C15_marker", n, fmt.Sprintf("all lines with %d body bytes x 4 line endings", n), "quick")
	}
	for n := int64(8); n <= 12; n++ {
		j("H_C15_marker", n, fmt.Sprintf("all lines with %d body bytes x 4 line endings (nine-digit numbers at 10+)", n), "thorough")
	}
	j("H_C15_marker", 11, "all lines with 11 body bytes (nine digits + delimiter + follower)", "quick")
	j("H_C15_api", 1, "one-line documents, 1 body byte, through Parse", "quick")
	j("H_C15_api", 2, "one-line documents, 2 body bytes, through Parse", "quick")
	j("H_C15_api", 3, "one-line documents, 3 body bytes, through Parse", "quick")
	j("H_C15_api", 4, "one-line documents, 4 body bytes, through Parse", "thorough")
	for n := int64(0); n <= 3; n++ {
		j("H_C15_uri", n, fmt.Sprintf("NormalizeURI on all byte strings of length %d (incl. invalid UTF-8)", n), "quick")
	}
	j("H_C15_uri", 4, "NormalizeURI on all byte strings of length 4", "thorough")
	for n := int64(0); n <= 4; n++ {
		j("H_C15_email", n, fmt.Sprintf("IsEmailAddress on all byte strings of length %d", n), "quick")
	}
	j("H_C15_email", 5, "IsEmailAddress on all byte strings of length 5", "thorough")
	for _, k := range []int64{59, 60, 61, 62, 63, 64} {
		j("H_C15_email_label", k, fmt.Sprintf("a@ + %d x 'a' + 2 free label bytes (63-character label limit)", k), "quick")
	}
	add(c15)
	return m
}
