package main

import (
	"fmt"
	"os"
	"path/filepath"
	"time"

	"verif/engine/symgo"
)

// cmdTwin is the vacuity guard (DESIGN.md §2.5): every registered quick-tier job is
// run as its twin, in which each check() reached is treated as failing. A harness
// whose assumptions are unsatisfiable, or that never reaches an assertion, yields no
// violation and is reported as VACUOUS. The first twin violation of every job is
// also replayed natively (VERIF_TWIN=1) to show that the native harness reaches the
// same assertion. Writes no evidence. Exit 0 when no job is vacuous, 2 otherwise.
func cmdTwin(args []string) {
	if len(args) < 1 {
		fmt.Fprintln(os.Stderr, "usage: vcheck twin <property> [--tier quick|thorough]")
		os.Exit(2)
	}
	tier := "quick"
	for i := 1; i < len(args); i++ {
		if args[i] == "--tier" && i+1 < len(args) {
			tier = args[i+1]
		}
	}
	spec := propSpecs()[args[0]]
	if spec == nil {
		fmt.Fprintln(os.Stderr, "unknown property", args[0])
		os.Exit(2)
	}
	verif := defaultVerifDir
	prog := loadProgram(verif)
	pool := symgo.NewPool(prog, 16, 20000, nil)
	defer pool.Close()
	nativeExtraEnv = []string{"VERIF_TWIN=1"}
	vacuous, total := 0, 0
	casesByPkg := map[string][]ReplayCase{}
	clauseByPkg := map[string][]string{}
	for _, js := range spec.Jobs {
		if js.Tier == "thorough" && tier != "thorough" {
			continue
		}
		pkg := prog.Pkgs[js.Pkg]
		if pkg == nil || pkg.Func(js.Harness) == nil {
			continue
		}
		total++
		cfg := &symgo.Config{Prog: prog, Pool: pool, Pkg: js.Pkg, Harness: js.Harness, Params: js.Params, Workers: 16,
			Twin: true, StopAtCap: true, MaxNewViol: 1, MaxPaths: 4096, Deadline: time.Now().Add(60 * time.Second), Seed: 1, StepBudget: js.Steps}
		res := symgo.Explore(cfg)
		if len(res.Violations) == 0 {
			vacuous++
			fmt.Printf("VACUOUS property=%s harness=%s%v bound=%q: no assertion reached in %d paths (outcomes %v)\n", spec.ID, js.Harness, js.Params, js.Bound, res.Paths, res.Outcomes)
			continue
		}
		v := res.Violations[0]
		casesByPkg[js.Pkg] = append(casesByPkg[js.Pkg], ReplayCase{Harness: v.Harness, Params: v.Params, Model: v.Model})
		clauseByPkg[js.Pkg] = append(clauseByPkg[js.Pkg], v.Clause)
	}
	nativeBad := 0
	for pkg, cases := range casesByPkg {
		res, err := nativeReplay(verif, pkg, cases, spec.ID+"-twin")
		if err != nil {
			fmt.Println("twin: native replay failed:", err)
			os.Exit(2)
		}
		for i, r := range res {
			if !contains(r.Failed, clauseByPkg[pkg][i]) {
				nativeBad++
				fmt.Printf("TWIN-NATIVE-MISS property=%s harness=%s%v clause=%s native outcome=%s failed=%v\n", spec.ID, cases[i].Harness, cases[i].Params, clauseByPkg[pkg][i], r.Outcome, r.Failed)
			}
		}
	}
	os.Remove(filepath.Join(verif, "work"))
	fmt.Printf("twin property=%s tier=%s jobs=%d violated=%d vacuous=%d native_misses=%d\n", spec.ID, tier, total, total-vacuous, vacuous, nativeBad)
	if vacuous > 0 || nativeBad > 0 {
		os.Exit(2)
	}
}
