package main

import (
	"flag"
	"fmt"
	"os"
	"regexp"
	"runtime/debug"
	"runtime/pprof"
	"sort"
	"strconv"
	"strings"
	"sync"
	"time"

	"verif/engine/symgo"
)

// repoDir is the tree under test: /repo unless VERIF_REPO names a scratch worktree
// (development aid for running checks against seeded changes without touching /repo;
// registered commands never set it).
var repoDir = func() string {
	if d := os.Getenv("VERIF_REPO"); d != "" {
		return d
	}
	return "/repo"
}()

// defaultVerifDir is /verif unless VERIF_DIR is set (development copies).
var defaultVerifDir = func() string {
	if d := os.Getenv("VERIF_DIR"); d != "" {
		return d
	}
	return "/verif"
}()

func harnessOverlay(verifDir string) map[string][]byte {
	return harnessFiles(verifDir, "sym")
}

var unitErrRe = regexp.MustCompile(`zz_verif_(u_\w+\.go):\d+`)

func loadProgram(verifDir string) *symgo.Program {
	t0 := time.Now()
	p, err := symgo.Load(repoDir, harnessOverlay(verifDir), "verif", "zombiezen.com/go/commonmark", "zombiezen.com/go/commonmark/format")
	for try := 0; err != nil && try < 40; try++ {
		// A unit harness (u_*.go) names unexported identifiers of the library; when the
		// working tree no longer has them (renamed, new signature) that file is left out
		// and its bounds are reported as skipped - the public-API harnesses still run.
		// Errors anywhere else are real load errors.
		bad := map[string]string{}
		other := false
		for _, line := range strings.Split(err.Error(), "\n") {
			m := unitErrRe.FindStringSubmatch(line)
			switch {
			case m != nil:
				if _, ok := bad[m[1]]; !ok {
					bad[m[1]] = strings.TrimSpace(line)
				}
			case strings.Contains(line, ".go:"):
				other = true
			}
		}
		if other || len(bad) == 0 {
			break
		}
		for f, why := range bad {
			droppedUnits[f] = why
			fmt.Printf("SKIPPED-UNIT %s: does not type-check against the current tree (%s)\n", f, why)
		}
		p, err = symgo.Load(repoDir, harnessOverlay(verifDir), "verif", "zombiezen.com/go/commonmark", "zombiezen.com/go/commonmark/format")
	}
	if err != nil {
		fmt.Fprintln(os.Stderr, "LOAD-ERROR:", err)
		os.Exit(2)
	}
	fmt.Fprintf(os.Stderr, "loaded SSA in %v\n", time.Since(t0).Round(time.Millisecond))
	return p
}

func main() {
	debug.SetGCPercent(400)
	if len(os.Args) < 2 {
		fmt.Fprintln(os.Stderr, "usage: vcheck run|replay|selftest|twin|explore|native ...")
		os.Exit(2)
	}
	switch os.Args[1] {
	case "explore":
		cmdExplore(os.Args[2:])
	case "run":
		cmdRun(os.Args[2:])
	case "native":
		cmdNative(os.Args[2:])
	case "replay":
		cmdReplay(os.Args[2:])
	case "selftest":
		cmdSelftest(os.Args[2:])
	case "twin":
		cmdTwin(os.Args[2:])
	default:
		fmt.Fprintln(os.Stderr, "unknown command")
		os.Exit(2)
	}
}

func cmdExplore(args []string) {
	fs := flag.NewFlagSet("explore", flag.ExitOnError)
	pkg := fs.String("pkg", "zombiezen.com/go/commonmark", "package")
	h := fs.String("h", "", "harness function")
	workers := fs.Int("j", 16, "workers")
	params := fs.String("p", "", "comma separated int params")
	timeout := fs.Duration("t", 0, "deadline")
	verif := fs.String("verif", defaultVerifDir, "verif dir")
	panicClause := fs.String("panic", "", "clause for panics")
	cert := fs.Int("cert", 0, "partition certificate max bits")
	steps := fs.Int64("steps", 0, "per-path step budget (0 = default 20,000,000)")
	budgetClause := fs.String("budget", "", "clause for step-budget exhaustion")
	cpuprof := fs.String("cpuprofile", "", "write cpu profile")
	fs.Parse(args)
	var ps []int64
	for _, s := range strings.Split(*params, ",") {
		if s == "" {
			continue
		}
		v, _ := strconv.ParseInt(s, 10, 64)
		ps = append(ps, v)
	}
	if os.Getenv("SYMGO_DEBUG") == "conc" {
		var mu sync.Mutex
		sites := map[string]int{}
		symgo.DebugConc = func(w string) { mu.Lock(); sites[w]++; mu.Unlock() }
		defer func() {
			for k, v := range sites {
				fmt.Printf("  conc %6d %s\n", v, k)
			}
		}()
	}
	prog := loadProgram(*verif)
	if os.Getenv("SYMGO_DEBUG") == "cover" {
		var all [][]symgo.Lit
		symgo.DebugCover = func(l []symgo.Lit, nv int) { all = append(all, l) }
		defer func() {
			n := int(ps[0])
			total := 1 << (8 * uint(n))
			bad := 0
			for a := 0; a < total; a++ {
				model := make([]uint64, n)
				for k := 0; k < n; k++ {
					model[k] = uint64(a>>(8*uint(k))) & 0xff
				}
				cnt := 0
				for _, lits := range all {
					ok := true
					for _, l := range lits {
						if (l.T.Eval(model) != 0) == l.Neg {
							ok = false
							break
						}
					}
					if ok {
						cnt++
					}
				}
				if cnt != 1 {
					bad++
					if bad < 3 {
						fmt.Printf("  input %v covered %d times\n", model, cnt)
					}
					if bad == 1 {
						in := symgo.NewInterpFor(prog, nil)
						fn := prog.Pkgs[*pkg].Func(*h)
						in.ExclIdx = -1
						out, det := in.RunPath(fn, []symgo.Value{symgo.IntValue(uint64(n))}, model, 1<<30)
						fmt.Println("   outcome", out, det)
						var mine []string
						for _, d := range in.PC {
							mine = append(mine, fmt.Sprintf("%v:%s", d.Taken, d.T))
						}
						best, bestk := -1, -1
						for pi, lits := range all {
							k := 0
							for k < len(lits) && k < len(mine) && fmt.Sprintf("%v:%s", !lits[k].Neg, lits[k].T) == mine[k] {
								k++
							}
							if k > bestk {
								best, bestk = pi, k
							}
						}
						fmt.Printf("   longest common prefix %d with path %d (len %d); mine len %d\n", bestk, best, len(all[best]), len(mine))
						for k := 0; k <= bestk && k < len(mine); k++ {
							fmt.Println("     mine ", mine[k])
						}
						if bestk < len(all[best]) {
							fmt.Printf("     other %v:%s\n", !all[best][bestk].Neg, all[best][bestk].T)
						}
					}
				}
			}
			fmt.Printf("  cover: %d of %d inputs not covered exactly once\n", bad, total)
		}()
	}
	symgo.DebugConsistency = os.Getenv("SYMGO_DEBUG") == "consistency"
	if *cpuprof != "" {
		f, _ := os.Create(*cpuprof)
		pprof.StartCPUProfile(f)
		defer pprof.StopCPUProfile()
	}
	if os.Getenv("SYMGO_DEBUG") == "query" {
		var mu sync.Mutex
		sites := map[string]int{}
		symgo.DebugQuery = func(nv, nl int, res symgo.SatResult, w string) {
			mu.Lock()
			sites[fmt.Sprintf("vars=%d %v %s", nv, res, w)]++
			mu.Unlock()
		}
		defer func() {
			var ks []string
			for k, v := range sites {
				ks = append(ks, fmt.Sprintf("%7d %s", v, k))
			}
			sort.Strings(ks)
			for _, k := range ks[max(0, len(ks)-40):] {
				fmt.Println("  q", k)
			}
		}()
	}
	if f := os.Getenv("SYMGO_DUMPQ"); f != "" {
		var mu sync.Mutex
		out, _ := os.Create(f)
		n := 0
		symgo.DumpQueries = func(q string) {
			mu.Lock()
			n++
			if n%50 == 0 {
				fmt.Fprintf(out, "%s(pop 1)\n", q)
			}
			mu.Unlock()
		}
	}
	if b := os.Getenv("SYMGO_SOLVER"); b != "" {
		symgo.SolverBackend = b
	}
	symgo.DebugTrace = os.Getenv("SYMGO_DEBUG") == "trace"
	symgo.NoCache = os.Getenv("SYMGO_NOCACHE") != ""
	cfg := &symgo.Config{Prog: prog, Pkg: *pkg, Harness: *h, Params: ps, Workers: *workers, PanicClause: *panicClause, BudgetClause: *budgetClause, StepBudget: *steps, SampleN: 5, Cert: *cert}
	if *timeout > 0 {
		cfg.Deadline = time.Now().Add(*timeout)
	}
	res := symgo.Explore(cfg)
	printResult(res)
}

func printResult(res *symgo.Result) {
	fmt.Printf("%s%v: paths=%d exhausted=%v pending=%d queries=%d (cache %d trivial %d) sat=%d unsat=%d unknown=%d checkq=%d solver=%v wall=%v maxsteps=%d maxvars=%d\n",
		res.Harness, res.Params, res.Paths, res.Exhausted, res.Pending, res.Queries, res.CacheHits, res.Trivial, res.SatN, res.UnsatN, res.UnknownN, res.CheckQ,
		res.SolverTime.Round(time.Millisecond), res.Wall.Round(time.Millisecond), res.MaxSteps, res.MaxVars)
	fmt.Printf("  outcomes=%v\n", res.Outcomes)
	if res.CertSum != nil {
		fmt.Printf("  partition certificate: sum=%s uncounted=%d\n", res.CertSum.RatString(), res.CertUncounted)
	}
	if len(res.Unsupported) > 0 {
		fmt.Printf("  unsupported=%v\n", res.Unsupported)
	}
	if len(res.PanicMsgs) > 0 {
		fmt.Printf("  panics=%v\n", res.PanicMsgs)
	}
	var cl []string
	for c := range res.ClauseReach {
		cl = append(cl, fmt.Sprintf("%s:%d", c, res.ClauseReach[c]))
	}
	sort.Strings(cl)
	fmt.Printf("  clauses=%v\n", cl)
	fmt.Printf("  known=%v new=%d\n", res.KnownHits, res.NewViol)
	for _, v := range res.Violations {
		fmt.Printf("  VIOL clause=%s kind=%s detail=%q bytes=%q model=%v\n", v.Clause, v.Kind, v.Detail, v.Bytes(), v.Model)
	}
}

// cmdNative runs one harness natively under a given model and prints the result.
func cmdNative(args []string) {
	fs := flag.NewFlagSet("native", flag.ExitOnError)
	pkg := fs.String("pkg", pkgCM, "package")
	h := fs.String("h", "", "harness")
	params := fs.String("p", "", "params")
	model := fs.String("m", "", "model values, comma separated")
	fs.Parse(args)
	var ps []int64
	for _, s := range strings.Split(*params, ",") {
		if s != "" {
			v, _ := strconv.ParseInt(s, 10, 64)
			ps = append(ps, v)
		}
	}
	var m []uint64
	for _, s := range strings.Split(*model, ",") {
		if s != "" {
			v, _ := strconv.ParseUint(s, 10, 64)
			m = append(m, v)
		}
	}
	res, err := nativeReplay(defaultVerifDir, *pkg, []ReplayCase{{Harness: *h, Params: ps, Model: m}}, "native")
	if err != nil {
		fmt.Println("error:", err)
		os.Exit(2)
	}
	r := res[0]
	fmt.Printf("outcome=%s %s\nfailed=%v\ndigest=%q\n", r.Outcome, r.Detail, r.Failed, r.Digest)
	for _, n := range r.Notes {
		fmt.Printf("note: %q\n", n)
	}
}
