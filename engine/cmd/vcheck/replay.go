package main

import (
	"encoding/json"
	"fmt"
	"os"
	"os/exec"
	"path/filepath"
	"regexp"
	"sort"
	"strings"
	"time"
)

// Shared harness support files live in harness/commonmark and are injected into
// both packages (package clause rewritten for format).
var sharedFiles = map[string]bool{"api_sym.go": true, "api_native.go": true, "replay_test.go": true, "gen.go": true, "shared_util.go": true}

const (
	pkgCM  = "zombiezen.com/go/commonmark"
	pkgFmt = "zombiezen.com/go/commonmark/format"
)

// harnessFiles returns virtual path -> content for the given mode ("sym" or "native").
// droppedUnits: unit-harness files (u_*.go, the only harness files that name
// unexported identifiers of the library) that did not type-check against the
// current /repo working tree, with the first error; they are left out of the
// symbolic and the native build and their jobs are reported as SKIPPED-UNIT.
var droppedUnits = map[string]string{}

func harnessFiles(verifDir, mode string) map[string][]byte {
	ov := map[string][]byte{}
	keep := func(base string) bool {
		if _, dropped := droppedUnits[base]; dropped {
			return false
		}
		switch {
		case strings.HasSuffix(base, "_sym.go"):
			return mode == "sym"
		case strings.HasSuffix(base, "_native.go"), strings.HasSuffix(base, "_test.go"):
			return mode == "native"
		}
		return true
	}
	vname := func(base string) string {
		if strings.HasSuffix(base, "_test.go") {
			return "zz_verif_" + base
		}
		return "zz_verif_" + base
	}
	cmDir := filepath.Join(verifDir, "harness/commonmark")
	fmDir := filepath.Join(verifDir, "harness/format")
	files, _ := filepath.Glob(filepath.Join(cmDir, "*.go"))
	for _, f := range files {
		base := filepath.Base(f)
		if !keep(base) {
			continue
		}
		b, err := os.ReadFile(f)
		if err != nil {
			panic(err)
		}
		ov[filepath.Join(repoDir, vname(base))] = b
		if sharedFiles[base] {
			fb := strings.Replace(string(b), "package commonmark", "package format", 1)
			ov[filepath.Join(repoDir, "format", vname(base))] = []byte(fb)
		}
	}
	files, _ = filepath.Glob(filepath.Join(fmDir, "*.go"))
	for _, f := range files {
		base := filepath.Base(f)
		if !keep(base) {
			continue
		}
		b, err := os.ReadFile(f)
		if err != nil {
			panic(err)
		}
		ov[filepath.Join(repoDir, "format", vname(base))] = b
	}
	if mode == "native" {
		// registries
		re := regexp.MustCompile(`(?m)^func (H_\w+)\(`)
		for _, pk := range []struct{ dir, name, sub string }{{cmDir, "commonmark", ""}, {fmDir, "format", "format"}} {
			var names []string
			fs, _ := filepath.Glob(filepath.Join(pk.dir, "*.go"))
			for _, f := range fs {
				if strings.HasSuffix(f, "_test.go") {
					continue
				}
				if _, dropped := droppedUnits[filepath.Base(f)]; dropped {
					continue
				}
				b, _ := os.ReadFile(f)
				for _, m := range re.FindAllSubmatch(b, -1) {
					names = append(names, string(m[1]))
				}
			}
			sort.Strings(names)
			var sb strings.Builder
			sb.WriteString("//go:build verif\n\npackage " + pk.name + "\n\nvar vRegistry = map[string]func(int, int){\n")
			for _, n := range names {
				fmt.Fprintf(&sb, "\t%q: %s,\n", n, n)
			}
			sb.WriteString("}\n")
			ov[filepath.Join(repoDir, pk.sub, "zz_verif_registry_test.go")] = []byte(sb.String())
		}
	}
	return ov
}

type ReplayCase struct {
	Harness string   `json:"harness"`
	Params  []int64  `json:"params"`
	Model   []uint64 `json:"model"`
}

type ReplayResult struct {
	Outcome string   `json:"outcome"`
	Detail  string   `json:"detail"`
	Failed  []string `json:"failed"`
	Digest  []byte   `json:"digest"`
	Notes   []string `json:"notes"`
}

// nativeExtraEnv is appended to the environment of native replays (VERIF_TWIN=1 in twin mode).
var nativeExtraEnv []string

// nativeReplay runs cases against the natively compiled working tree of /repo.
func nativeReplay(verifDir, pkg string, cases []ReplayCase, tag string) ([]ReplayResult, error) {
	work := filepath.Join(verifDir, "work", fmt.Sprintf("replay-%s-%d", tag, os.Getpid()))
	if err := os.MkdirAll(work, 0o755); err != nil {
		return nil, err
	}
	defer os.RemoveAll(work)
	ov := harnessFiles(verifDir, "native")
	repl := map[string]string{}
	i := 0
	for v, content := range ov {
		real := filepath.Join(work, fmt.Sprintf("f%03d_%s", i, filepath.Base(v)))
		i++
		if err := os.WriteFile(real, content, 0o644); err != nil {
			return nil, err
		}
		repl[v] = real
	}
	ovJSON, _ := json.Marshal(map[string]any{"Replace": repl})
	ovPath := filepath.Join(work, "overlay.json")
	os.WriteFile(ovPath, ovJSON, 0o644)
	inPath, outPath := filepath.Join(work, "in.json"), filepath.Join(work, "out.json")
	b, _ := json.Marshal(cases)
	os.WriteFile(inPath, b, 0o644)
	target := "."
	if pkg == pkgFmt {
		target = "./format"
	}
	cmd := exec.Command("go", "test", "-tags", "verif", "-vet=off", "-count=1", "-timeout", "20m", "-overlay", ovPath, "-run", "^TestVerifReplay$", target)
	cmd.Dir = repoDir
	cmd.Env = append(os.Environ(), "GOFLAGS=-mod=mod", "GOPROXY=off", "GOSUMDB=off", "GOTOOLCHAIN=local",
		"VERIF_REPLAY="+inPath, "VERIF_REPLAY_OUT="+outPath)
	cmd.Env = append(cmd.Env, nativeExtraEnv...)
	t0 := time.Now()
	out, err := cmd.CombinedOutput()
	if _, serr := os.Stat(outPath); serr != nil {
		return nil, fmt.Errorf("native replay failed (%v) after %v:\n%s", err, time.Since(t0), out)
	}
	rb, err := os.ReadFile(outPath)
	if err != nil {
		return nil, err
	}
	var res []ReplayResult
	if err := json.Unmarshal(rb, &res); err != nil {
		return nil, err
	}
	if len(res) != len(cases) {
		return nil, fmt.Errorf("native replay returned %d results for %d cases", len(res), len(cases))
	}
	return res, nil
}

// cmdReplay re-runs a recorded counterexample (a file under /verif/replays) against
// the natively compiled working tree of /repo. Exit 1 (with a VIOLATION line) if the
// recorded clause still fails, 0 if it no longer does, 2 on trouble.
func cmdReplay(args []string) {
	if len(args) < 1 {
		fmt.Fprintln(os.Stderr, "usage: vcheck replay <replay.json>")
		os.Exit(2)
	}
	b, err := os.ReadFile(args[0])
	if err != nil {
		fmt.Fprintln(os.Stderr, "replay:", err)
		os.Exit(2)
	}
	var rec struct {
		Property string   `json:"property"`
		Harness  string   `json:"harness"`
		Params   []int64  `json:"params"`
		Pkg      string   `json:"pkg"`
		Model    []uint64 `json:"model"`
		Clause   string   `json:"clause"`
		Kind     string   `json:"kind"`
		Input    string   `json:"input_bytes"`
	}
	if err := json.Unmarshal(b, &rec); err != nil {
		fmt.Fprintln(os.Stderr, "replay:", err)
		os.Exit(2)
	}
	if rec.Pkg == "" {
		rec.Pkg = pkgCM
	}
	if rec.Kind == "engine" {
		fmt.Printf("replay: clause %s is an engine-level observation (store into frozen state); it has no native counterpart - re-run ./check %s\n", rec.Clause, rec.Property)
		os.Exit(2)
	}
	verif := defaultVerifDir
	res, err := nativeReplay(verif, rec.Pkg, []ReplayCase{{Harness: rec.Harness, Params: rec.Params, Model: rec.Model}}, "replay")
	os.Remove(filepath.Join(verif, "work")) // only if empty: another check may be using it
	if err != nil {
		fmt.Println("replay error:", err)
		os.Exit(2)
	}
	r := res[0]
	fmt.Printf("harness=%s params=%v input=%q\nnative outcome=%s %s\nfailed clauses=%v\n", rec.Harness, rec.Params, rec.Input, r.Outcome, r.Detail, r.Failed)
	for _, n := range r.Notes {
		fmt.Printf("note: %q\n", n)
	}
	repro := false
	switch rec.Kind {
	case "panic":
		repro = r.Outcome == "panic"
	case "budget":
		repro = r.Outcome == "timeout"
	default:
		repro = contains(r.Failed, rec.Clause)
	}
	if repro {
		abs, _ := filepath.Abs(args[0])
		fmt.Printf("VIOLATION property=%s replay=%s\n", rec.Property, abs)
		os.Exit(1)
	}
	fmt.Printf("clause %s holds on this input with the current /repo\n", rec.Clause)
}
