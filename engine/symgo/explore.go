package symgo

import (
	"math/big"
		"fmt"
	"math/rand"
	"os"
	"runtime/debug"
	"sort"
	"strings"
	"sync"
	"time"

	"golang.org/x/tools/go/ssa"
)

// Job is one unit of the generational search.
type Job struct {
	Model   []uint64
	Bound   int
	ExclIdx int      // PC index of a concretisation chain to replay (-1: none)
	Excl    []uint64 // values excluded at that chain
}

type Violation struct {
	Clause  string
	Detail  string
	Model   []uint64
	Widths  []uint8
	Notes   []string
	Kind    string // "check", "panic", "budget", "engine"
	Known   string // id of matching known finding, "" if new
	Replay  string
	Harness string
	Params  []int64
}

// Bytes returns the 8-bit variables of the witness in creation order.
func (v *Violation) Bytes() []byte {
	var b []byte
	for i, w := range v.Widths {
		if w == 8 && i < len(v.Model) {
			b = append(b, byte(v.Model[i]))
		} else if w == 8 {
			b = append(b, 0)
		}
	}
	return b
}

type Sample struct {
	Model   []uint64
	Widths  []uint8
	Digest  []byte
	Outcome string
	Failed  []string
}

type Config struct {
	Prog          *Program
	Pool          *Pool
	Pkg           string
	Harness       string
	Params        []int64
	Workers       int
	StepBudget    int64
	SolverTimeout int // ms
	Deadline      time.Time
	MaxPaths      int64
	Seed          int64
	SampleN       int
	PanicClause   string // clause name under which uncaught panics are reported ("" = outcome only)
	BudgetClause  string
	Classify      func(v *Violation) string
	MaxNewViol    int
	Cross         int // every k-th solver query is cross-checked (0 = off)
	Verbose       bool
	InitHook      func(in *Interp)
	Cert          int // >0: partition certificate with components up to this many bits
	InitModel     []uint64 // model of the first job (default: all zero)
	SinglePath    bool     // run only the first job, spawn nothing (concrete replay of InitModel)
	Twin          bool     // vacuity twin: every check() reached is treated as failing
	StopAtCap     bool     // stop this exploration once MaxNewViol distinct new violations are recorded
}

type Result struct {
	Harness     string
	Params      []int64
	Paths       int64
	Queries     int64
	SatN        int64
	UnsatN      int64
	UnknownN    int64
	CacheHits   int64
	Trivial     int64
	SemKeys     int64
	CheckQ      int64
	SolverTime  time.Duration
	Wall        time.Duration
	Exhausted   bool
	Pending     int
	Outcomes    map[string]int64
	Unsupported map[string]int64
	ClauseReach map[string]int64
	Violations  []*Violation // new (unknown) violations, capped
	KnownHits   map[string]int64
	NewViol     int64
	Samples     []Sample
	Funcs       map[string]int
	MaxSteps    int64
	MaxVars     int
	CrossChecked int64
	CrossDisagree int64
	PanicMsgs   map[string]int64
	CertSum     *big.Rat
	CertUncounted int64
}

type explorer struct {
	cfg     *Config
	mu      sync.Mutex
	cond    *sync.Cond
	queue   []Job
	running int
	stop    bool
	res     *Result
	rng     *rand.Rand
	seen    int64
	start   time.Time
	cache   *sharedCache
}

type worker struct {
	ex      *explorer
	in      *Interp
	solver  *Solver
	fn      *ssa.Function
	failed  []string
	nq      int64
	local   Result
}

type cacheEnt struct {
	res   SatResult
	model map[uint32]uint64
}

// Explore runs the harness to an empty frontier (or deadline).
func Explore(cfg *Config) *Result {
	if cfg.Workers <= 0 {
		cfg.Workers = 16
	}
	if cfg.SolverTimeout == 0 {
		cfg.SolverTimeout = 20000
	}
	if cfg.Pool == nil {
		cfg.Pool = NewPool(cfg.Prog, cfg.Workers, cfg.SolverTimeout, cfg.InitHook)
		defer cfg.Pool.Close()
	}
	if len(cfg.Pool.interps) < cfg.Workers {
		cfg.Workers = len(cfg.Pool.interps)
	}
	if cfg.StepBudget == 0 {
		cfg.StepBudget = 20_000_000
	}
	if cfg.SolverTimeout == 0 {
		cfg.SolverTimeout = 20000
	}
	if cfg.MaxNewViol == 0 {
		cfg.MaxNewViol = 5
	}
	ex := &explorer{cfg: cfg, rng: rand.New(rand.NewSource(cfg.Seed)), start: time.Now(), cache: newSharedCache()}
	ex.cond = sync.NewCond(&ex.mu)
	ex.res = &Result{Harness: cfg.Harness, Params: cfg.Params, Outcomes: map[string]int64{}, Unsupported: map[string]int64{},
		ClauseReach: map[string]int64{}, KnownHits: map[string]int64{}, Funcs: map[string]int{}, PanicMsgs: map[string]int64{}}
	ex.queue = []Job{{ExclIdx: -1, Model: cfg.InitModel}}
	if cfg.SinglePath {
		ex.queue[0].Bound = 1 << 30
	}
	var wg sync.WaitGroup
	fatal := make(chan string, cfg.Workers)
	for i := 0; i < cfg.Workers; i++ {
		wg.Add(1)
		go func(id int) {
			defer wg.Done()
			defer func() {
				if r := recover(); r != nil {
					fatal <- fmt.Sprintf("worker %d: %v\n%s", id, r, debug.Stack())
					ex.mu.Lock()
					ex.stop = true
					ex.cond.Broadcast()
					ex.mu.Unlock()
				}
			}()
			w := newWorker(ex, id)
			w.loop()
			w.merge()
		}(i)
	}
	wg.Wait()
	select {
	case msg := <-fatal:
		fmt.Fprintln(os.Stderr, "ENGINE-FATAL", msg)
		ex.res.Unsupported["engine-fatal: "+firstLine(msg)]++
		ex.res.Exhausted = false
	default:
	}
	ex.res.Wall = time.Since(ex.start)
	ex.res.Pending = len(ex.queue)
	if len(ex.queue) == 0 && !ex.stop && len(ex.res.Unsupported) == 0 && ex.res.UnknownN == 0 {
		ex.res.Exhausted = true
	}
	return ex.res
}

func firstLine(s string) string {
	if i := strings.IndexByte(s, '\n'); i >= 0 {
		return s[:i]
	}
	return s
}

// NewInterpFor builds an interpreter, runs package initialisation, and returns it.
func NewInterpFor(p *Program, initHook func(in *Interp)) *Interp {
	in := NewInterp(p.Prog)
	in.Hooks = nopHooks{}
	in.skipInit = skipInitPkg
	in.RunInits(p)
	if initHook != nil {
		initHook(in)
	}
	return in
}

type nopHooks struct{}

func (nopHooks) Negate(in *Interp, idx int)                     {}
func (nopHooks) Check(in *Interp, c Value, clause string)       {}
func (nopHooks) Violation(in *Interp, clause, detail string)    {}

// Pool holds per-worker interpreters (with package initialisation done) and
// solver processes so that several harnesses can be explored by one process.
type Pool struct {
	Prog    *Program
	interps []*Interp
	solvers []*Solver
}

func NewPool(p *Program, n int, solverTimeoutMs int, initHook func(in *Interp)) *Pool {
	pl := &Pool{Prog: p, interps: make([]*Interp, n), solvers: make([]*Solver, n)}
	var wg sync.WaitGroup
	var mu sync.Mutex
	var failed any
	for i := 0; i < n; i++ {
		wg.Add(1)
		go func(i int) {
			defer wg.Done()
			defer func() {
				if r := recover(); r != nil {
					mu.Lock()
					failed = r
					mu.Unlock()
				}
			}()
			pl.interps[i] = NewInterpFor(p, initHook)
			pl.solvers[i] = NewSolver(SolverBackend, solverTimeoutMs)
		}(i)
	}
	wg.Wait()
	if failed != nil {
		panic(failed)
	}
	return pl
}

func (pl *Pool) Close() {
	for _, s := range pl.solvers {
		if s != nil {
			s.Close()
		}
	}
}

func newWorker(ex *explorer, id int) *worker {
	w := &worker{ex: ex}
	w.in = ex.cfg.Pool.interps[id]
	w.in.Hooks = w
	w.in.StepBudget = ex.cfg.StepBudget
	for _, fi := range w.in.fns {
		fi.calls = 0
	}
	w.solver = ex.cfg.Pool.solvers[id]
	w.solver.Dur = 0
	pkg := ex.cfg.Prog.Pkgs[ex.cfg.Pkg]
	if pkg == nil {
		panic("package not loaded: " + ex.cfg.Pkg)
	}
	w.fn = pkg.Func(ex.cfg.Harness)
	if w.fn == nil {
		panic("harness not found: " + ex.cfg.Harness)
	}
	w.local = Result{Outcomes: map[string]int64{}, Unsupported: map[string]int64{}, ClauseReach: map[string]int64{}, KnownHits: map[string]int64{}, PanicMsgs: map[string]int64{}}
	return w
}

func (w *worker) loop() {
	ex := w.ex
	for {
		ex.mu.Lock()
		for len(ex.queue) == 0 && ex.running > 0 && !ex.stop {
			ex.cond.Wait()
		}
		if ex.stop || len(ex.queue) == 0 {
			ex.cond.Broadcast()
			ex.mu.Unlock()
			return
		}
		if !ex.cfg.Deadline.IsZero() && time.Now().After(ex.cfg.Deadline) {
			ex.stop = true
			ex.cond.Broadcast()
			ex.mu.Unlock()
			return
		}
		if ex.cfg.MaxPaths > 0 && ex.seen >= ex.cfg.MaxPaths {
			ex.stop = true
			ex.cond.Broadcast()
			ex.mu.Unlock()
			return
		}
		j := ex.queue[len(ex.queue)-1]
		ex.queue = ex.queue[:len(ex.queue)-1]
		ex.running++
		ex.seen++
		ex.mu.Unlock()

		w.runJob(j)

		ex.mu.Lock()
		ex.running--
		if ex.running == 0 && len(ex.queue) == 0 {
			ex.cond.Broadcast()
		}
		ex.mu.Unlock()
		if w.in.TT.Size() > 400_000 || w.solver.NDefs() > 300_000 {
			w.in.TT = NewTermTab()
			w.solver.Restart()
		}
	}
}

func (w *worker) push(j Job) {
	ex := w.ex
	ex.mu.Lock()
	ex.queue = append(ex.queue, j)
	ex.cond.Signal()
	ex.mu.Unlock()
}

func (w *worker) runJob(j Job) {
	in := w.in
	w.failed = w.failed[:0]
	args := make([]Value, len(w.ex.cfg.Params))
	for i, p := range w.ex.cfg.Params {
		args[i] = intV(uint64(p), 64)
	}
	if DebugTrace {
		fmt.Printf("JOB model=%v bound=%d exclIdx=%d excl=%v\n", j.Model, j.Bound, j.ExclIdx, j.Excl)
	}
	in.ExclIdx, in.Excl = j.ExclIdx, j.Excl
	out, detail := in.RunPath(w.fn, args, j.Model, j.Bound)
	w.local.Paths++
	if in.Steps > w.local.MaxSteps {
		w.local.MaxSteps = in.Steps
	}
	if in.NVars > w.local.MaxVars {
		w.local.MaxVars = in.NVars
	}
	w.local.Outcomes[out]++
	if DebugCover != nil {
		var lits []Lit
		for _, d := range in.PC {
			lits = append(lits, Lit{d.T, !d.Taken})
		}
		DebugCover(lits, in.NVars)
	}
	if cb := w.ex.cfg.Cert; cb > 0 {
		if f, ok := in.pathFraction(cb); ok {
			if w.local.CertSum == nil {
				w.local.CertSum = new(big.Rat)
			}
			w.local.CertSum.Add(w.local.CertSum, f)
		} else {
			w.local.CertUncounted++
		}
	}
	switch out {
	case "panic":
		w.local.PanicMsgs[detail]++
		if c := w.ex.cfg.PanicClause; c != "" {
			w.violation(c, "panic: "+detail, in.Model, "panic")
		}
	case "budget":
		if c := w.ex.cfg.BudgetClause; c != "" {
			w.violation(c, "step budget exhausted in "+detail, in.Model, "budget")
		} else {
			w.local.Unsupported["step budget exhausted: "+detail]++
		}
	case "unsupported", "depth":
		w.local.Unsupported[out+": "+detail]++
	}
	// sampling for native validation
	if n := w.ex.cfg.SampleN; n > 0 && (out == "ok" || out == "panic") {
		s := Sample{Model: append([]uint64(nil), in.Model...), Widths: append([]uint8(nil), in.VarW...), Digest: append([]byte(nil), in.Digest...), Outcome: out, Failed: append([]string(nil), w.failed...)}
		ex := w.ex
		ex.mu.Lock()
		if len(ex.res.Samples) < n {
			ex.res.Samples = append(ex.res.Samples, s)
		} else if k := ex.rng.Int63n(ex.seen); k < int64(n) {
			ex.res.Samples[k] = s
		}
		ex.mu.Unlock()
	}
}

func (w *worker) merge() {
	ex := w.ex
	ex.mu.Lock()
	defer ex.mu.Unlock()
	r, l := ex.res, &w.local
	r.Paths += l.Paths
	r.Queries += l.Queries
	r.SatN += l.SatN
	r.UnsatN += l.UnsatN
	r.UnknownN += l.UnknownN
	r.CacheHits += l.CacheHits
	r.Trivial += l.Trivial
	r.SemKeys += l.SemKeys
	r.CheckQ += l.CheckQ
	r.CrossChecked += l.CrossChecked
	r.CrossDisagree += l.CrossDisagree
	r.SolverTime += w.solver.Dur
	if l.CertSum != nil {
		if r.CertSum == nil {
			r.CertSum = new(big.Rat)
		}
		r.CertSum.Add(r.CertSum, l.CertSum)
	}
	r.CertUncounted += l.CertUncounted
	if l.MaxSteps > r.MaxSteps {
		r.MaxSteps = l.MaxSteps
	}
	if l.MaxVars > r.MaxVars {
		r.MaxVars = l.MaxVars
	}
	for k, v := range l.Outcomes {
		r.Outcomes[k] += v
	}
	for k, v := range l.Unsupported {
		r.Unsupported[k] += v
	}
	for k, v := range l.ClauseReach {
		r.ClauseReach[k] += v
	}
	for k, v := range l.KnownHits {
		r.KnownHits[k] += v
	}
	for k, v := range l.PanicMsgs {
		r.PanicMsgs[k] += v
	}
	for fn, fi := range w.in.fns {
		if fi.calls > 0 && fi.blocks != nil {
			if _, ok := r.Funcs[fn.String()]; !ok {
				r.Funcs[fn.String()] = fi.nInstrs
			}
		}
	}
}

// ---------------------------------------------------------------- hooks

// sliceFor returns the literals of PC[0:idx) connected (through shared
// variables) to target, plus the bitset of variables involved.
func (w *worker) sliceFor(idx int, target *Term) []Lit {
	in := w.in
	nw := (in.NVars + 63) / 64
	need := make([]uint64, nw)
	for _, v := range target.Vars() {
		need[v/64] |= 1 << (v % 64)
	}
	used := make([]bool, idx)
	var lits []Lit
	for changed := true; changed; {
		changed = false
		for i := 0; i < idx; i++ {
			if used[i] {
				continue
			}
			vs := in.PC[i].T.Vars()
			hit := false
			for _, v := range vs {
				if need[v/64]&(1<<(v%64)) != 0 {
					hit = true
					break
				}
			}
			if hit {
				used[i] = true
				changed = true
				for _, v := range vs {
					need[v/64] |= 1 << (v % 64)
				}
			}
		}
	}
	for i := 0; i < idx; i++ {
		if used[i] {
			lits = append(lits, Lit{in.PC[i].T, !in.PC[i].Taken})
		}
	}
	return lits
}

// DebugCover, if set, receives every completed path condition.
var DebugCover func(lits []Lit, nvars int)

// SolverBackend selects the primary solver: "z3lib" (in-process libz3) or "z3" (z3 -in pipe).
var SolverBackend = "z3"

var DebugTrace bool
var DebugQuery func(nvars, nlits int, res SatResult, where string)

func trunc(s string, n int) string {
	if len(s) > n {
		return s[:n] + "..."
	}
	return s
}

// NoCache disables the verdict cache (debugging).
var NoCache bool

type hkey [2]uint64

// cacheKey hashes a query. When the whole query mentions exactly one variable
// (single=true) the variable-independent shape hashes are used, so the same
// constraint set over another input byte shares the verdict (the model is
// re-targeted by the caller).
func cacheKey(lits []Lit, single bool) hkey {
	// order-insensitive over the prefix literals; the last (negated) literal is distinguished
	type hp struct{ a, b uint64 }
	hs := make([]hp, len(lits)-1)
	for i, l := range lits[:len(lits)-1] {
		a, b := l.T.H1, l.T.H2
		if single {
			a, b = l.T.S1, l.T.S2
		}
		if l.Neg {
			a, b = mix64(a, 0x55), mix64(b, 0xaa)
		}
		hs[i] = hp{a, b}
	}
	sort.Slice(hs, func(i, j int) bool {
		if hs[i].a != hs[j].a {
			return hs[i].a < hs[j].a
		}
		return hs[i].b < hs[j].b
	})
	var k hkey
	k[0], k[1] = 0x1111, 0x2222
	var prev hp
	for i, h := range hs {
		if i > 0 && h == prev {
			continue
		}
		prev = h
		k[0] = mix64(k[0], h.a)
		k[1] = mix64(k[1], h.b)
	}
	l := lits[len(lits)-1]
	a, b := l.T.H1, l.T.H2
	if single {
		a, b = l.T.S1, l.T.S2
		k[0] ^= 0x5151
	}
	if l.Neg {
		a, b = mix64(a, 0x55), mix64(b, 0xaa)
	}
	k[0] = mix64(mix64(k[0], 0xfeed), a)
	k[1] = mix64(mix64(k[1], 0xbeef), b)
	return k
}

const cacheShards = 64

type sharedCache struct {
	sh [cacheShards]struct {
		mu sync.RWMutex
		m  map[hkey]cacheEnt
	}
}

func newSharedCache() *sharedCache {
	c := &sharedCache{}
	for i := range c.sh {
		c.sh[i].m = map[hkey]cacheEnt{}
	}
	return c
}

func (c *sharedCache) get(k hkey) (cacheEnt, bool) {
	s := &c.sh[k[0]%cacheShards]
	s.mu.RLock()
	e, ok := s.m[k]
	s.mu.RUnlock()
	return e, ok
}

func (c *sharedCache) put(k hkey, e cacheEnt) {
	s := &c.sh[k[0]%cacheShards]
	s.mu.Lock()
	s.m[k] = e
	s.mu.Unlock()
}

func (w *worker) solve(lits []Lit) (SatResult, map[uint32]uint64) {
	w.local.Queries++
	// syntactic contradiction: the negated literal already holds with the other polarity
	last := lits[len(lits)-1]
	for _, l := range lits[:len(lits)-1] {
		if l.T == last.T && l.Neg != last.Neg {
			w.local.Trivial++
			return Unsat, nil
		}
	}
	// single-variable query?
	single, sv := true, uint32(0)
	first := true
	for _, l := range lits {
		vs := l.T.Vars()
		if len(vs) != 1 || (!first && vs[0] != sv) {
			single = false
			break
		}
		sv, first = vs[0], false
	}
	var key hkey
	if single && w.in.VarW[sv] == 8 {
		// Single 8-bit variable: key the cache by the query's solution set, computed
		// with the engine's term evaluator. Queries with the same solution set are
		// equisatisfiable and share models, so the first z3 verdict serves them all.
		sol := [4]uint64{^uint64(0), ^uint64(0), ^uint64(0), ^uint64(0)}
		for _, l := range lits {
			bm := l.T.truth8()
			for k := 0; k < 4; k++ {
				if l.Neg {
					sol[k] &^= bm[k]
				} else {
					sol[k] &= bm[k]
				}
			}
		}
		key = hkey{mix64(mix64(0x8b17, sol[0]), sol[1]), mix64(mix64(0x51de, sol[2]), sol[3])}
		key[0] = mix64(key[0], sol[2]^sol[3]<<1)
		key[1] = mix64(key[1], sol[0]^sol[1]<<1)
		w.local.SemKeys++
	} else {
		key = cacheKey(lits, single)
	}
	if e, ok := w.ex.cache.get(key); ok && !NoCache {
		w.local.CacheHits++
		if single && e.res == Sat {
			for _, v := range e.model {
				return Sat, map[uint32]uint64{sv: v}
			}
		}
		return e.res, e.model
	}
	res, model := w.solver.Check(lits)
	w.nq++
	if DebugQuery != nil {
		nv := map[uint32]bool{}
		for _, l := range lits {
			for _, v := range l.T.Vars() {
				nv[v] = true
			}
		}
		DebugQuery(len(nv), len(lits), res, w.in.StackString(2))
	}
	if res == Unknown {
		// retry on the other solvers (one-shot)
		sc := Script(lits)
		for _, alt := range []string{"z3-new", "cvc5"} {
			r2 := OneShot(alt, sc, 60*time.Second)
			if r2 == Unsat {
				res = Unsat
				break
			}
			// a Sat answer without a model cannot seed a child job; keep Unknown
		}
	} else if k := w.ex.cfg.Cross; k > 0 && w.nq%int64(k) == 0 {
		sc := Script(lits)
		for _, alt := range []string{"z3-new", "cvc5"} {
			r2 := OneShot(alt, sc, 60*time.Second)
			w.local.CrossChecked++
			if r2 != Unknown && r2 != res {
				w.local.CrossDisagree++
				fmt.Fprintf(os.Stderr, "CROSS-DISAGREE z3=%v %s=%v\n%s\n", res, alt, r2, sc)
			}
		}
	}
	switch res {
	case Sat:
		w.local.SatN++
	case Unsat:
		w.local.UnsatN++
	default:
		w.local.UnknownN++
	}
	w.ex.cache.put(key, cacheEnt{res, model})
	return res, model
}

func (w *worker) mergeModel(m map[uint32]uint64) []uint64 {
	in := w.in
	n := in.NVars
	nm := make([]uint64, n)
	copy(nm, in.Model)
	for k, v := range m {
		if int(k) < n {
			nm[k] = v
		}
	}
	return nm
}

func (w *worker) Negate(in *Interp, idx int) {
	d := in.PC[idx]
	lits := w.sliceFor(idx, d.T)
	var excl []uint64
	if d.Kind == DConc {
		if in.ExclIdx == idx {
			excl = append(excl, in.Excl...)
			for _, e := range in.Excl {
				t := in.TT.Cmp(OpEq, d.CT, in.TT.Const(e, d.CT.W))
				if t.Op == OpNot {
					lits = append(lits, Lit{t.A, false})
				} else if t.Op != OpConst {
					lits = append(lits, Lit{t, true})
				}
			}
		}
		excl = append(excl, d.CV)
	}
	lits = append(lits, Lit{d.T, d.Taken}) // negation of the taken direction
	res, model := w.solve(lits)
	if DebugTrace {
		fmt.Printf("    negate idx=%d kind=%d %v:%s -> %v %v\n", idx, d.Kind, d.Taken, trunc(d.T.String(), 80), res, model)
	}
	if res != Sat {
		return
	}
	if d.Kind == DConc {
		// the child re-decides slot idx with the visited values excluded
		w.push(Job{Model: w.mergeModel(model), Bound: idx, ExclIdx: idx, Excl: excl})
		return
	}
	w.push(Job{Model: w.mergeModel(model), Bound: idx + 1, ExclIdx: -1})
}

func (w *worker) Check(in *Interp, c Value, clause string) {
	w.local.ClauseReach[clause]++
	if c.C == 0 || w.ex.cfg.Twin {
		w.failed = append(w.failed, clause)
		w.violation(clause, "", in.Model, "check")
		return
	}
	if c.T == nil || w.ex.cfg.SinglePath {
		return
	}
	t, neg := c.T, true
	if t.Op == OpNot {
		t, neg = t.A, false
	}
	lits := w.sliceFor(len(in.PC), t)
	lits = append(lits, Lit{t, neg})
	w.local.CheckQ++
	res, model := w.solve(lits)
	if res == Sat {
		w.violation(clause, "", w.mergeModel(model), "check")
	}
}

func (w *worker) Violation(in *Interp, clause, detail string) {
	w.failed = append(w.failed, clause)
	w.violation(clause, detail, in.Model, "engine")
}

func (w *worker) violation(clause, detail string, model []uint64, kind string) {
	in := w.in
	v := &Violation{Clause: clause, Detail: detail, Kind: kind, Harness: w.ex.cfg.Harness, Params: w.ex.cfg.Params,
		Model: append([]uint64(nil), model...), Widths: append([]uint8(nil), in.VarW...), Notes: append([]string(nil), in.Notes...)}
	for len(v.Model) < len(v.Widths) {
		v.Model = append(v.Model, 0)
	}
	if w.ex.cfg.Classify != nil {
		v.Known = w.ex.cfg.Classify(v)
	}
	if v.Known != "" {
		w.local.KnownHits[v.Known]++
		return
	}
	ex := w.ex
	ex.mu.Lock()
	ex.res.NewViol++
	if len(ex.res.Violations) < ex.cfg.MaxNewViol {
		dup := false
		for _, o := range ex.res.Violations {
			if o.Clause == v.Clause && string(o.Bytes()) == string(v.Bytes()) {
				dup = true
			}
		}
		if !dup {
			ex.res.Violations = append(ex.res.Violations, v)
		}
	}
	if ex.cfg.StopAtCap && len(ex.res.Violations) >= ex.cfg.MaxNewViol && !ex.stop {
		ex.stop = true
		ex.res.Unsupported["stopped: violation cap reached (the bound is not exhausted)"]++
		ex.cond.Broadcast()
	}
	ex.mu.Unlock()
}

// ---------------------------------------------------------------- path runner

// RunPath executes fn under model; returns outcome and detail.
func (in *Interp) RunPath(fn *ssa.Function, args []Value, model []uint64, bound int) (outcome, detail string) {
	in.Model, in.Bound = model, bound
	in.NVars = 0
	in.VarW = in.VarW[:0]
	in.PC = in.PC[:0]
	in.Steps = 0
	in.depth = 0
	in.fstack = in.fstack[:0]
	in.stack = in.stack[:0]
	in.argSP = 0
	in.Digest = in.Digest[:0]
	in.Notes = in.Notes[:0]
	in.journal = in.journal[:0]
	in.mjournal = in.mjournal[:0]
	in.frozenAll = false
	in.onceDepth = 0
	in.pools = nil
	in.NoFork = 0
	in.curDeferFrame = in.curDeferFrame[:0]
	in.pathBaseID = in.nextID
	in.inPath = true
	defer func() {
		in.inPath = false
		in.frozenAll = false
		// roll back writes to init-era objects
		for i := len(in.journal) - 1; i >= 0; i-- {
			e := in.journal[i]
			e.o.Cells[e.i] = e.old
		}
		for i := len(in.mjournal) - 1; i >= 0; i-- {
			e := in.mjournal[i]
			e.m.Keys, e.m.Vals = e.keys, e.vals
			in.rebuildIdx(e.m)
		}
		if r := recover(); r != nil {
			switch p := r.(type) {
			case *goPanic:
				outcome, detail = "panic", p.msg
			case *pathEnd:
				outcome, detail = p.reason, p.detail
			default:
				panic(r)
			}
		}
	}()
	in.call(in.info(fn), args, nil, nil)
	return "ok", ""
}
