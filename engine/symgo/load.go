package symgo

import (
	"fmt"
	"go/types"
	"os"
	"strings"

	"golang.org/x/tools/go/packages"
	"golang.org/x/tools/go/ssa"
	"golang.org/x/tools/go/ssa/ssautil"
)

var typByte = types.Typ[types.Uint8]

// Program is the SSA of the repository under test plus dependencies, built from
// the current working tree (nothing is cached between runs).
type Program struct {
	Prog *ssa.Program
	Pkgs map[string]*ssa.Package
}

// Load builds SSA for the given package patterns in dir, with overlay files
// (virtual path -> content) injected and build tags enabled.
func Load(dir string, overlay map[string][]byte, tags string, patterns ...string) (*Program, error) {
	cfg := &packages.Config{
		Mode:    packages.LoadAllSyntax,
		Dir:     dir,
		Overlay: overlay,
		Env:     append(os.Environ(), "GOFLAGS=-mod=mod", "GOPROXY=off", "GOSUMDB=off", "GOTOOLCHAIN=local", "CGO_ENABLED=0"),
	}
	if tags != "" {
		cfg.BuildFlags = []string{"-tags=" + tags}
	}
	pkgs, err := packages.Load(cfg, patterns...)
	if err != nil {
		return nil, err
	}
	var errs []string
	packages.Visit(pkgs, nil, func(p *packages.Package) {
		for _, e := range p.Errors {
			errs = append(errs, e.Error())
		}
	})
	if len(errs) > 0 {
		return nil, fmt.Errorf("package load errors:\n%s", strings.Join(errs, "\n"))
	}
	prog, spkgs := ssautil.AllPackages(pkgs, ssa.InstantiateGenerics)
	prog.Build()
	p := &Program{Prog: prog, Pkgs: map[string]*ssa.Package{}}
	for _, sp := range spkgs {
		if sp != nil {
			p.Pkgs[sp.Pkg.Path()] = sp
		}
	}
	return p, nil
}
