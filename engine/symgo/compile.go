package symgo

import (
	"fmt"
	"go/constant"
	"go/types"

	"golang.org/x/tools/go/ssa"
)

type operand struct {
	reg int32 // >=0: register; -1: constant k; -2: absent
	k   Value
}

type cinstr struct {
	ins ssa.Instruction
	dst int32
	o   []operand
	aux any
	op  uint8 // opcode (dense switch)
}

type cblock struct {
	instrs  []cinstr
	nphi    int
	preds   []int // indices of predecessor blocks
	succs   [2]int
	comment string
}

type fnInfo struct {
	fn        *ssa.Function
	nregs     int
	blocks    []cblock
	hasDefer  bool
	recoverBB int
	intrinsic intrinsicFn
	name      string
	nInstrs   int
	calls     int64
}

const (
	opOther uint8 = iota
	opAlloc
	opBinOp
	opCall
	opChangeInterface
	opChangeType
	opConvert
	opExtract
	opField
	opFieldAddr
	opIf
	opIndex
	opIndexAddr
	opJump
	opLookup
	opMakeClosure
	opMakeInterface
	opMakeMap
	opMakeSlice
	opMapUpdate
	opNext
	opPanic
	opPhi
	opRange
	opReturn
	opRunDefers
	opSlice
	opStore
	opTypeAssert
	opUnOp
	opDefer
	opDebugRef
	opSliceToArrayPointer
	opMultiConvert
	opUnsupported
)

func opcodeOf(ins ssa.Instruction) uint8 {
	switch ins.(type) {
	case *ssa.Alloc:
		return opAlloc
	case *ssa.BinOp:
		return opBinOp
	case *ssa.Call:
		return opCall
	case *ssa.ChangeInterface:
		return opChangeInterface
	case *ssa.ChangeType:
		return opChangeType
	case *ssa.Convert:
		return opConvert
	case *ssa.Extract:
		return opExtract
	case *ssa.Field:
		return opField
	case *ssa.FieldAddr:
		return opFieldAddr
	case *ssa.If:
		return opIf
	case *ssa.Index:
		return opIndex
	case *ssa.IndexAddr:
		return opIndexAddr
	case *ssa.Jump:
		return opJump
	case *ssa.Lookup:
		return opLookup
	case *ssa.MakeClosure:
		return opMakeClosure
	case *ssa.MakeInterface:
		return opMakeInterface
	case *ssa.MakeMap:
		return opMakeMap
	case *ssa.MakeSlice:
		return opMakeSlice
	case *ssa.MapUpdate:
		return opMapUpdate
	case *ssa.Next:
		return opNext
	case *ssa.Panic:
		return opPanic
	case *ssa.Phi:
		return opPhi
	case *ssa.Range:
		return opRange
	case *ssa.Return:
		return opReturn
	case *ssa.RunDefers:
		return opRunDefers
	case *ssa.Slice:
		return opSlice
	case *ssa.Store:
		return opStore
	case *ssa.TypeAssert:
		return opTypeAssert
	case *ssa.UnOp:
		return opUnOp
	case *ssa.Defer:
		return opDefer
	case *ssa.DebugRef:
		return opDebugRef
	case *ssa.SliceToArrayPointer:
		return opSliceToArrayPointer
	case *ssa.MultiConvert:
		return opMultiConvert
	}
	return opUnsupported
}

func (in *Interp) info(fn *ssa.Function) *fnInfo {
	if fi, ok := in.fns[fn]; ok {
		return fi
	}
	fi := in.compile(fn)
	in.fns[fn] = fi
	return fi
}

func (in *Interp) compile(fn *ssa.Function) *fnInfo {
	fi := &fnInfo{fn: fn, name: fn.String(), recoverBB: -1}
	if f, ok := in.intrinsics[fi.name]; ok {
		fi.intrinsic = f
		return fi
	}
	if fn.Blocks == nil {
		return fi
	}
	if fn.Name() == "init" && fn.Pkg != nil && fn.Parent() == nil && fn.Signature.Recv() == nil && in.skipInit != nil && in.skipInit(fn.Pkg.Pkg.Path()) {
		fi.intrinsic = func(in *Interp, a []Value, s *cinstr) Value { return Value{} }
		return fi
	}
	regs := map[ssa.Value]int32{}
	n := int32(0)
	for _, p := range fn.Params {
		regs[p] = n
		n++
	}
	for _, fv := range fn.FreeVars {
		regs[fv] = n
		n++
	}
	for _, b := range fn.Blocks {
		for _, ins := range b.Instrs {
			if v, ok := ins.(ssa.Value); ok {
				regs[v] = n
				n++
			}
		}
	}
	fi.nregs = int(n)
	fi.blocks = make([]cblock, len(fn.Blocks))
	if fn.Recover != nil {
		fi.recoverBB = fn.Recover.Index
	}
	var ops []*ssa.Value
	for bi, b := range fn.Blocks {
		cb := &fi.blocks[bi]
		cb.comment = b.Comment
		for _, p := range b.Preds {
			cb.preds = append(cb.preds, p.Index)
		}
		cb.succs = [2]int{-1, -1}
		for i, s := range b.Succs {
			if i < 2 {
				cb.succs[i] = s.Index
			}
		}
		cb.instrs = make([]cinstr, 0, len(b.Instrs))
		for _, ins := range b.Instrs {
			ci := cinstr{ins: ins, dst: -1, op: opcodeOf(ins)}
			if ci.op == opDebugRef {
				continue
			}
			if v, ok := ins.(ssa.Value); ok {
				ci.dst = regs[v]
			}
			if ci.op == opPhi {
				cb.nphi++
			}
			if ci.op == opDefer {
				fi.hasDefer = true
			}
			ops = ins.Operands(ops[:0])
			ci.o = make([]operand, len(ops))
			for i, op := range ops {
				ci.o[i] = in.operand(regs, *op)
			}
			cb.instrs = append(cb.instrs, ci)
			fi.nInstrs++
		}
	}
	return fi
}

func (in *Interp) operand(regs map[ssa.Value]int32, v ssa.Value) operand {
	if v == nil {
		return operand{reg: -2}
	}
	switch x := v.(type) {
	case *ssa.Const:
		return operand{reg: -1, k: in.constValue(x)}
	case *ssa.Global:
		return operand{reg: -1, k: Value{K: KPtr, R: in.globalObj(x)}}
	case *ssa.Function:
		return operand{reg: -1, k: Value{K: KFunc, R: &Closure{Fn: x}}}
	case *ssa.Builtin:
		return operand{reg: -1, k: Value{K: KPoison, R: x}}
	}
	r, ok := regs[v]
	if !ok {
		panic(fmt.Sprintf("no register for %s (%T)", v.Name(), v))
	}
	return operand{reg: r}
}

func (in *Interp) constValue(c *ssa.Const) Value {
	t := c.Type()
	l := in.lay.of(t)
	if c.Value == nil {
		return in.zeroValue(l)
	}
	switch l.Cat {
	case tBool:
		return boolV(constant.BoolVal(c.Value))
	case tInt:
		iv := constant.ToInt(c.Value)
		if i, ok := constant.Int64Val(iv); ok {
			return intV(uint64(i), l.W)
		}
		u, _ := constant.Uint64Val(iv)
		return intV(u, l.W)
	case tString:
		return strV(constant.StringVal(c.Value))
	case tFloat:
		f, _ := constant.Float64Val(constant.ToFloat(c.Value))
		return Value{K: KFloat, R: f}
	}
	if b, ok := t.Underlying().(*types.Basic); ok && b.Kind() == types.UntypedNil {
		return Value{}
	}
	panic(fmt.Sprintf("constValue: %s of type %s", c, t))
}

// zeroValue returns the zero value for a layout (fresh aggregate object if needed).
func (in *Interp) zeroValue(l *Layout) Value {
	if l.isAgg() {
		return Value{K: KAgg, R: in.newObj(l.zeroCells())}
	}
	if len(l.Zero) == 1 {
		return l.Zero[0]
	}
	return Value{}
}
