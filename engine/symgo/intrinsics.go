package symgo

import (
	"fmt"
	"go/token"
	"go/types"
	"unicode/utf8"
)

const tokLSS = token.LSS

// HarnessPkgs are the package paths in which harness intrinsics are recognised.
var HarnessPkgs = []string{"zombiezen.com/go/commonmark", "zombiezen.com/go/commonmark/format"}

func sliceCells(v Value) []Value {
	if v.K == KNil {
		return nil
	}
	if v.K == KString {
		return strCells(v)
	}
	o := v.R.(*Obj)
	return o.Cells[int(v.C) : int(v.C)+int(v.N)]
}

// indexByteCells: first i with cells[i]==c, branching per symbolic comparison.
func (in *Interp) indexByteCells(cells []Value, c Value) int {
	for i := range cells {
		e := in.intCmp(token.EQL, cells[i], c, false)
		if in.branch(e) {
			return i
		}
	}
	return -1
}

func (in *Interp) indexCells(a, b []Value) int {
	n := len(b)
	if n == 0 {
		return 0
	}
	for i := 0; i+n <= len(a); i++ {
		m := Value{K: KBool, C: 1}
		for k := 0; k < n; k++ {
			m = in.andV(m, in.intCmp(token.EQL, a[i+k], b[k], false))
			if m.T == nil && m.C == 0 {
				break
			}
		}
		if in.branch(m) {
			return i
		}
	}
	return -1
}

func (in *Interp) errorValue(msg string) Value {
	f := in.Prog.ImportedPackage("errors").Func("New")
	return in.call(in.info(f), []Value{strV(msg)}, nil, nil)
}

func registerIntrinsics(in *Interp) {
	R := func(name string, f intrinsicFn) { in.intrinsics[name] = f }
	// ---- harness API
	for _, p := range HarnessPkgs {
		R(p+".nondetByte", func(in *Interp, a []Value, s *cinstr) Value { return in.NewVar(8) })
		R(p+".nondetBool", func(in *Interp, a []Value, s *cinstr) Value {
			v := in.NewVar(8)
			one := in.intCmp(token.LEQ, v, intV(1, 8), false)
			in.Assume(one)
			return in.intCmp(token.EQL, v, intV(1, 8), false)
		})
		R(p+".nondetInt", func(in *Interp, a []Value, s *cinstr) Value {
			lo, hi := sext64(a[0].C, 64), sext64(a[1].C, 64)
			if a[0].T != nil || a[1].T != nil {
				in.unsupported("nondetInt with symbolic bounds")
			}
			if hi < lo {
				panic(&pathEnd{reason: "assume"})
			}
			rng := uint64(hi - lo)
			w := uint8(8)
			if rng > 255 {
				w = 64
			}
			v := in.NewVar(w)
			if rng < wmask(w) {
				in.Assume(in.intCmp(token.LEQ, v, intV(rng, w), false))
			}
			v64 := in.convertInt(v, false, 64)
			return in.intBin(token.ADD, v64, intV(uint64(lo), 64), true)
		})
		R(p+".assume", func(in *Interp, a []Value, s *cinstr) Value { in.Assume(a[0]); return Value{} })
		R(p+".check", func(in *Interp, a []Value, s *cinstr) Value {
			in.Hooks.Check(in, a[0], concreteStr(a[1]))
			return Value{}
		})
		R(p+".vdigest", func(in *Interp, a []Value, s *cinstr) Value {
			for _, c := range sliceCells(a[0]) {
				in.Digest = append(in.Digest, byte(c.C))
			}
			return Value{}
		})
		R(p+".vnote", func(in *Interp, a []Value, s *cinstr) Value {
			in.Notes = append(in.Notes, concreteStr(a[0]))
			return Value{}
		})
		R(p+".vfreeze", func(in *Interp, a []Value, s *cinstr) Value {
			in.frozenAll = true
			in.freezeID = in.nextID
			return Value{}
		})
		R(p+".vunfreeze", func(in *Interp, a []Value, s *cinstr) Value {
			in.frozenAll = false
			return Value{}
		})
		// vconcrete(x int) int: pins a symbolic int to its shadow on this path
		R(p+".vconcrete", func(in *Interp, a []Value, s *cinstr) Value { return in.concretizeV(a[0]) })
		// vsymbolic(b byte) bool: whether the byte depends on nondet input
		R(p+".vsymbolic", func(in *Interp, a []Value, s *cinstr) Value { return boolV(a[0].T != nil) })
		// vsame(a, b []byte) bool: single-term byte-wise equality (no forking)
		R(p+".vsame", func(in *Interp, a []Value, s *cinstr) Value {
			x, y := sliceCells(a[0]), sliceCells(a[1])
			if len(x) != len(y) {
				return boolV(false)
			}
			r := Value{K: KBool, C: 1}
			for i := range x {
				r = in.andV(r, in.intCmp(token.EQL, x[i], y[i], false))
				if r.T == nil && r.C == 0 {
					return r
				}
			}
			return r
		})
		// vand / vor / vnot / vite: non-forking boolean connectives
		R(p+".vand", func(in *Interp, a []Value, s *cinstr) Value { return in.andV(a[0], a[1]) })
		R(p+".vor", func(in *Interp, a []Value, s *cinstr) Value { return in.orV(a[0], a[1]) })
		R(p+".vimplies", func(in *Interp, a []Value, s *cinstr) Value { return in.orV(in.notV(a[0]), a[1]) })
		// vutf8valid(b []byte) bool: UTF-8 validity as a single Bool term (no forking)
		R(p+".vutf8valid", func(in *Interp, a []Value, s *cinstr) Value { return in.utf8ValidTerm(sliceCells(a[0])) })
		R(p+".vfreezeBytes", func(in *Interp, a []Value, s *cinstr) Value {
			if a[0].K == KSlice {
				a[0].R.(*Obj).Flags |= FFrozen
			}
			return Value{}
		})
		R(p+".vunfreezeBytes", func(in *Interp, a []Value, s *cinstr) Value {
			if a[0].K == KSlice {
				a[0].R.(*Obj).Flags &^= FFrozen
			}
			return Value{}
		})
		R(p+".vaddrOf", func(in *Interp, a []Value, s *cinstr) Value {
			// identity of the first cell of a slice: (object id << 24) + offset; 0 for nil/empty
			v := a[0]
			if v.K != KSlice || v.N == 0 {
				return intV(0, 64)
			}
			return intV(v.R.(*Obj).ID<<24+v.C, 64)
		})
	}
	// ---- internal/bytealg
	R("internal/bytealg.IndexByte", func(in *Interp, a []Value, s *cinstr) Value {
		return intV(uint64(in.indexByteCells(sliceCells(a[0]), a[1])), 64)
	})
	R("internal/bytealg.IndexByteString", in.intrinsics["internal/bytealg.IndexByte"])
	R("internal/bytealg.Index", func(in *Interp, a []Value, s *cinstr) Value {
		return intV(uint64(in.indexCells(sliceCells(a[0]), sliceCells(a[1]))), 64)
	})
	R("internal/bytealg.IndexString", in.intrinsics["internal/bytealg.Index"])
	R("internal/bytealg.Count", func(in *Interp, a []Value, s *cinstr) Value {
		n := 0
		for _, c := range sliceCells(a[0]) {
			if in.branch(in.intCmp(token.EQL, c, a[1], false)) {
				n++
			}
		}
		return intV(uint64(n), 64)
	})
	R("internal/bytealg.CountString", in.intrinsics["internal/bytealg.Count"])
	R("internal/bytealg.Equal", func(in *Interp, a []Value, s *cinstr) Value {
		x, y := sliceCells(a[0]), sliceCells(a[1])
		if len(x) != len(y) {
			return boolV(false)
		}
		r := Value{K: KBool, C: 1}
		for i := range x {
			r = in.andV(r, in.intCmp(token.EQL, x[i], y[i], false))
		}
		return r
	})
	R("internal/bytealg.Compare", func(in *Interp, a []Value, s *cinstr) Value {
		x, y := sliceCells(a[0]), sliceCells(a[1])
		for i := 0; i < len(x) && i < len(y); i++ {
			if in.branch(in.intCmp(token.EQL, x[i], y[i], false)) {
				continue
			}
			if in.branch(in.intCmp(token.LSS, x[i], y[i], false)) {
				return intV(^uint64(0), 64)
			}
			return intV(1, 64)
		}
		switch {
		case len(x) < len(y):
			return intV(^uint64(0), 64)
		case len(x) > len(y):
			return intV(1, 64)
		}
		return intV(0, 64)
	})
	R("internal/bytealg.Cutover", func(in *Interp, a []Value, s *cinstr) Value { return intV(64, 64) })
	R("internal/bytealg.MakeNoZero", func(in *Interp, a []Value, s *cinstr) Value {
		n := int(in.concretize(a[0], true))
		return in.makeSlice(in.lay.of(typByte), n, n)
	})
	R("internal/abi.NoEscape", func(in *Interp, a []Value, s *cinstr) Value { return a[0] })
	R("internal/abi.Escape", func(in *Interp, a []Value, s *cinstr) Value { return a[0] })
	// ---- sync
	nop := func(in *Interp, a []Value, s *cinstr) Value { return Value{} }
	for _, n := range []string{"(*sync.Mutex).Lock", "(*sync.Mutex).Unlock", "(*sync.RWMutex).Lock", "(*sync.RWMutex).Unlock",
		"(*sync.RWMutex).RLock", "(*sync.RWMutex).RUnlock", "internal/race.Acquire", "internal/race.Release", "internal/race.ReleaseMerge",
		"internal/race.Disable", "internal/race.Enable", "internal/race.Read", "internal/race.Write", "internal/race.ReadRange", "internal/race.WriteRange",
		"runtime.KeepAlive", "runtime.SetFinalizer"} {
		R(n, nop)
	}
	R("(*sync.Mutex).TryLock", func(in *Interp, a []Value, s *cinstr) Value { return boolV(true) })
	R("(*sync.Once).Do", func(in *Interp, a []Value, s *cinstr) Value {
		p := a[0]
		o := p.R.(*Obj)
		if o.Cells[p.C].C != 0 {
			return Value{}
		}
		// The body runs outside the path: its effects persist (properly
		// synchronised lazy initialisation), are not journalled or rolled back,
		// and must not depend on symbolic data.
		in.onceDepth++
		savePath, saveFork := in.inPath, in.NoFork
		in.inPath = false
		in.NoFork++
		npc := len(in.PC)
		cl := a[1].R.(*Closure)
		in.call(in.info(cl.Fn), nil, cl.Env, s)
		if len(in.PC) != npc {
			in.unsupported("sync.Once body depends on symbolic data")
		}
		o.Cells[p.C] = intV(1, 32)
		in.inPath, in.NoFork = savePath, saveFork
		in.onceDepth--
		return Value{}
	})
	// sync.Pool with sequential semantics: Put pushes, Get pops (or calls New). The pool's
	// contents live outside the modelled heap (per path), so pooling - properly
	// synchronised by the real implementation - is not reported as a write to shared
	// state; what a pooled object carries from one use to the next is modelled.
	R("(*sync.Pool).Put", func(in *Interp, a []Value, s *cinstr) Value {
		if a[1].K == KNil {
			return Value{}
		}
		k := ptrKey{a[0].R.(*Obj), a[0].C}
		if in.pools == nil {
			in.pools = map[ptrKey][]Value{}
		}
		in.pools[k] = append(in.pools[k], a[1])
		return Value{}
	})
	R("(*sync.Pool).Get", func(in *Interp, a []Value, s *cinstr) Value {
		k := ptrKey{a[0].R.(*Obj), a[0].C}
		if st := in.pools[k]; len(st) > 0 {
			v := st[len(st)-1]
			in.pools[k] = st[:len(st)-1]
			return v
		}
		sp := in.Prog.ImportedPackage("sync")
		if sp == nil || sp.Type("Pool") == nil {
			in.unsupported("sync.Pool type not loaded")
		}
		lay := in.lay.of(sp.Type("Pool").Type())
		newFn := a[0].R.(*Obj).Cells[int(a[0].C)+lay.Fields[len(lay.Fields)-1]]
		if newFn.K == KNil {
			return Value{K: KNil}
		}
		cl, ok := newFn.R.(*Closure)
		if !ok {
			in.unsupported("sync.Pool.New is not a closure value")
		}
		return in.call(in.info(cl.Fn), nil, cl.Env, s)
	})
	ld := func(in *Interp, a []Value, s *cinstr) Value {
		p := a[0]
		if p.K != KPtr {
			in.rtPanic("invalid memory address or nil pointer dereference")
		}
		return p.R.(*Obj).Cells[p.C]
	}
	st := func(in *Interp, a []Value, s *cinstr) Value {
		p := a[0]
		in.writeCell(p.R.(*Obj), int(p.C), a[1])
		return Value{}
	}
	for _, t := range []string{"Int32", "Int64", "Uint32", "Uint64", "Uintptr", "Pointer"} {
		R("sync/atomic.Load"+t, ld)
		R("sync/atomic.Store"+t, st)
		w := uint8(64)
		if t == "Int32" || t == "Uint32" {
			w = 32
		}
		if t != "Pointer" {
			ww := w
			R("sync/atomic.Add"+t, func(in *Interp, a []Value, s *cinstr) Value {
				p := a[0]
				o := p.R.(*Obj)
				nv := in.intBin(token.ADD, o.Cells[p.C], a[1], false)
				nv.W = ww
				in.writeCell(o, int(p.C), nv)
				return nv
			})
		}
		R("sync/atomic.CompareAndSwap"+t, func(in *Interp, a []Value, s *cinstr) Value {
			p := a[0]
			o := p.R.(*Obj)
			cur := o.Cells[p.C]
			eq := cur.K == a[1].K && cur.C == a[1].C && cur.R == a[1].R
			if eq {
				in.writeCell(o, int(p.C), a[2])
			}
			return boolV(eq)
		})
		R("sync/atomic.Swap"+t, func(in *Interp, a []Value, s *cinstr) Value {
			p := a[0]
			o := p.R.(*Obj)
			old := o.Cells[p.C]
			in.writeCell(o, int(p.C), a[1])
			return old
		})
	}
	// ---- fmt (opaque)
	R("fmt.Errorf", func(in *Interp, a []Value, s *cinstr) Value {
		return in.errorValue(concreteStr(a[0]))
	})
	R("fmt.Sprintf", func(in *Interp, a []Value, s *cinstr) Value {
		return strFromCells(in.fmtFormat(concreteStr(a[0]), variadicArgs(a[1]), s))
	})
	R("fmt.Appendf", func(in *Interp, a []Value, s *cinstr) Value {
		cells := in.fmtFormat(concreteStr(a[1]), variadicArgs(a[2]), s)
		return in.appendSlice(a[0], strFromCells(cells), in.lay.of(types.Typ[types.Uint8]))
	})
	R("fmt.Sprint", func(in *Interp, a []Value, s *cinstr) Value { return strV("<fmt.Sprint>") })
	R("fmt.Sprintln", func(in *Interp, a []Value, s *cinstr) Value { return strV("<fmt.Sprintln>\n") })
	R("fmt.Fprintf", func(in *Interp, a []Value, s *cinstr) Value {
		return Value{K: KTuple, R: []Value{intV(0, 64), {}}}
	})
	_ = fmt.Sprint
}

// utf8ValidTerm builds "cells is valid UTF-8" by dynamic programming over prefix
// validity: ok[i] = OR_k ok[i-k] AND seq_k(cells[i-k:i]).
func (in *Interp) utf8ValidTerm(c []Value) Value {
	tt := in.TT
	n := len(c)
	sh := make([]byte, n)
	sym := false
	for i := range c {
		sh[i] = byte(c[i].C)
		if c[i].T != nil {
			sym = true
		}
	}
	res := utf8.Valid(sh)
	if !sym {
		return boolV(res)
	}
	b := make([]*Term, n)
	for i := range c {
		b[i] = in.termOf(c[i])
	}
	k8 := func(v uint64) *Term { return tt.Const(v, 8) }
	rng := func(x *Term, lo, hi uint64) *Term {
		return tt.And(tt.Cmp(OpUle, k8(lo), x), tt.Cmp(OpUle, x, k8(hi)))
	}
	cont := func(x *Term) *Term { return rng(x, 0x80, 0xBF) }
	ok := make([]*Term, n+1)
	ok[0] = tt.Bool(true)
	for i := 1; i <= n; i++ {
		t := tt.And(ok[i-1], tt.Cmp(OpUlt, b[i-1], k8(0x80)))
		if i >= 2 {
			a, x := b[i-2], b[i-1]
			t = tt.Or(t, tt.And(ok[i-2], tt.And(rng(a, 0xC2, 0xDF), cont(x))))
		}
		if i >= 3 {
			a, x, y := b[i-3], b[i-2], b[i-1]
			lead := tt.Or(tt.Or(tt.And(tt.Cmp(OpEq, a, k8(0xE0)), rng(x, 0xA0, 0xBF)), tt.And(rng(a, 0xE1, 0xEC), cont(x))),
				tt.Or(tt.And(tt.Cmp(OpEq, a, k8(0xED)), rng(x, 0x80, 0x9F)), tt.And(rng(a, 0xEE, 0xEF), cont(x))))
			t = tt.Or(t, tt.And(ok[i-3], tt.And(lead, cont(y))))
		}
		if i >= 4 {
			a, x, y, z := b[i-4], b[i-3], b[i-2], b[i-1]
			lead := tt.Or(tt.Or(tt.And(tt.Cmp(OpEq, a, k8(0xF0)), rng(x, 0x90, 0xBF)), tt.And(rng(a, 0xF1, 0xF3), cont(x))),
				tt.And(tt.Cmp(OpEq, a, k8(0xF4)), rng(x, 0x80, 0x8F)))
			t = tt.Or(t, tt.And(ok[i-4], tt.And(lead, tt.And(cont(y), cont(z)))))
		}
		ok[i] = t
	}
	return mkBool(res, ok[n])
}
