package symgo

import (
	"fmt"
	"go/types"
	"strconv"
	"strings"
	"unicode/utf8"

	"golang.org/x/tools/go/ssa"
)

func (in *Interp) builtin(fr *frame, ci *cinstr, name string, args []Value, call *ssa.CallCommon) Value {
	switch name {
	case "len":
		x := args[0]
		switch x.K {
		case KNil:
			// nil slice/map, or *array
			if p, ok := call.Args[0].Type().Underlying().(*types.Pointer); ok {
				return intV(uint64(p.Elem().Underlying().(*types.Array).Len()), 64)
			}
			return intV(0, 64)
		case KString:
			return intV(uint64(strLen(x)), 64)
		case KSlice:
			return intV(uint64(x.N), 64)
		case KMap:
			return intV(uint64(len(x.R.(*MapObj).Keys)), 64)
		case KAgg:
			return intV(uint64(call.Args[0].Type().Underlying().(*types.Array).Len()), 64)
		case KPtr:
			return intV(uint64(deref(call.Args[0].Type()).Underlying().(*types.Array).Len()), 64)
		}
	case "cap":
		x := args[0]
		switch x.K {
		case KNil:
			if p, ok := call.Args[0].Type().Underlying().(*types.Pointer); ok {
				return intV(uint64(p.Elem().Underlying().(*types.Array).Len()), 64)
			}
			return intV(0, 64)
		case KSlice:
			return intV(uint64(x.M), 64)
		case KAgg:
			return intV(uint64(call.Args[0].Type().Underlying().(*types.Array).Len()), 64)
		case KPtr:
			return intV(uint64(deref(call.Args[0].Type()).Underlying().(*types.Array).Len()), 64)
		}
	case "append":
		el := in.lay.of(call.Args[0].Type().Underlying().(*types.Slice).Elem())
		return in.appendSlice(args[0], args[1], el)
	case "copy":
		el := in.lay.of(call.Args[0].Type().Underlying().(*types.Slice).Elem())
		return intV(uint64(in.copySlice(args[0], args[1], el)), 64)
	case "delete":
		in.mapDelete(args[0], args[1])
		return Value{}
	case "print", "println":
		return Value{}
	case "recover":
		if n := len(in.curDeferFrame); n > 0 {
			f := in.curDeferFrame[n-1]
			if f.panicking != nil {
				gp := f.panicking
				f.panicking = nil
				if gp.v.K != KNil {
					return gp.v
				}
				return Value{K: KIface, R: &Iface{T: types.Typ[types.String], V: strV(gp.msg)}}
			}
		}
		return Value{}
	case "ssa:wrapnilchk":
		if args[0].K == KNil {
			in.rtPanic("value method called using nil pointer")
		}
		return args[0]
	case "min", "max":
		l := in.lay.of(call.Args[0].Type())
		if l.Cat != tInt {
			in.unsupported("min/max on non-int")
		}
		r := args[0]
		for _, a := range args[1:] {
			var c Value
			if name == "min" {
				c = in.intCmp(tokLSS, a, r, l.Signed)
			} else {
				c = in.intCmp(tokLSS, r, a, l.Signed)
			}
			pick := r
			if c.C != 0 {
				pick = a
			}
			if c.T != nil {
				pick.T = in.TT.Ite(c.T, in.termOf(a), in.termOf(r))
				if pick.T.Op == OpConst {
					pick.T = nil
				}
			}
			r = pick
		}
		return r
	case "clear":
		x := args[0]
		switch x.K {
		case KMap:
			m := x.R.(*MapObj)
			in.mapTouch(m)
			m.Keys, m.Vals, m.Idx = nil, nil, map[any]int{}
		case KSlice:
			el := in.lay.of(call.Args[0].Type().Underlying().(*types.Slice).Elem())
			o := x.R.(*Obj)
			for i := 0; i < int(x.N); i++ {
				in.writeCells(o, int(x.C)+i*el.N, el.Zero)
			}
		}
		return Value{}
	case "SliceData":
		x := args[0]
		if x.K == KNil {
			return Value{}
		}
		return Value{K: KPtr, R: x.R, C: x.C}
	case "String":
		p, n := args[0], int(in.concretize(args[1], true))
		if n == 0 {
			return strV("")
		}
		o := p.R.(*Obj)
		return strFromCells(o.Cells[int(p.C) : int(p.C)+n])
	case "StringData":
		x := args[0]
		cells := strCells(x)
		cp := make([]Value, len(cells))
		copy(cp, cells)
		o := in.newObj(cp)
		o.Flags |= FFrozen
		return Value{K: KPtr, R: o}
	case "Slice":
		p, n := args[0], int(in.concretize(args[1], true))
		if p.K == KNil {
			return Value{}
		}
		o := p.R.(*Obj)
		el := in.lay.of(deref(call.Args[0].Type()))
		avail := (len(o.Cells) - int(p.C))
		if el.N > 0 {
			avail /= el.N
		}
		if n > avail {
			in.unsupported("unsafe.Slice beyond object")
		}
		return Value{K: KSlice, R: o, C: p.C, N: int32(n), M: int32(n)}
	}
	in.unsupported("builtin " + name)
	return Value{}
}

func growCap(oldCap, need int) int {
	nc := oldCap
	if nc == 0 {
		nc = need
		if nc < 8 {
			nc = 8
		}
		return nc
	}
	for nc < need {
		if nc < 256 {
			nc *= 2
		} else {
			nc += (nc + 768) / 4
		}
	}
	return nc
}

func (in *Interp) appendSlice(s, t Value, el *Layout) Value {
	var add []Value
	switch t.K {
	case KNil:
	case KString:
		add = strCells(t)
	case KSlice:
		o := t.R.(*Obj)
		add = o.Cells[int(t.C) : int(t.C)+int(t.N)*el.N]
	default:
		panic("append: bad second argument")
	}
	nAdd := 0
	if el.N > 0 {
		nAdd = len(add) / el.N
	} else if t.K == KSlice {
		nAdd = int(t.N)
	}
	if nAdd == 0 {
		return s
	}
	if s.K == KNil {
		c := growCap(0, nAdd)
		cells := make([]Value, c*el.N)
		copy(cells, add)
		for i := nAdd; i < c; i++ {
			copy(cells[i*el.N:], el.Zero)
		}
		return Value{K: KSlice, R: in.newObj(cells), N: int32(nAdd), M: int32(c)}
	}
	o := s.R.(*Obj)
	n, c := int(s.N), int(s.M)
	if n+nAdd <= c {
		// in place (add may alias: copy first)
		tmp := add
		if t.K == KSlice && t.R == s.R {
			tmp = append([]Value(nil), add...)
		}
		in.writeCells(o, int(s.C)+n*el.N, tmp)
		s.N = int32(n + nAdd)
		return s
	}
	nc := growCap(c, n+nAdd)
	cells := make([]Value, nc*el.N)
	copy(cells, o.Cells[int(s.C):int(s.C)+n*el.N])
	copy(cells[n*el.N:], add)
	for i := n + nAdd; i < nc; i++ {
		copy(cells[i*el.N:], el.Zero)
	}
	return Value{K: KSlice, R: in.newObj(cells), N: int32(n + nAdd), M: int32(nc)}
}

func (in *Interp) copySlice(dst, src Value, el *Layout) int {
	if dst.K == KNil {
		return 0
	}
	var sc []Value
	var sn int
	switch src.K {
	case KNil:
		return 0
	case KString:
		sc = strCells(src)
		sn = len(sc)
	case KSlice:
		o := src.R.(*Obj)
		sn = int(src.N)
		sc = o.Cells[int(src.C) : int(src.C)+sn*el.N]
	}
	n := int(dst.N)
	if sn < n {
		n = sn
	}
	if n == 0 {
		return 0
	}
	tmp := sc[:n*el.N]
	if src.K == KSlice && src.R == dst.R {
		tmp = append([]Value(nil), tmp...)
	}
	in.writeCells(dst.R.(*Obj), int(dst.C), tmp)
	return n
}

// ---------------------------------------------------------------- maps

func (in *Interp) canonKey(v Value, l *Layout) (any, bool) {
	switch v.K {
	case KNil:
		return nil, true
	case KInt, KBool:
		if v.T != nil {
			return nil, false
		}
		return v.C, true
	case KString:
		if isSymStr(v) {
			return nil, false
		}
		return v.R.(string), true
	case KPtr:
		return ptrKey{v.R.(*Obj), v.C}, true
	case KFloat:
		return v.R, true
	case KIface:
		i := v.R.(*Iface)
		k, ok := in.canonKey(i.V, in.lay.of(i.T))
		if !ok {
			return nil, false
		}
		return ifaceKey{i.T.String(), k}, true
	case KAgg:
		o := v.R.(*Obj)
		var sb strings.Builder
		for i := 0; i < l.N; i++ {
			c := o.Cells[int(v.C)+i]
			k, ok := in.canonKey(c, nil)
			if !ok {
				return nil, false
			}
			fmt.Fprintf(&sb, "%T:%v|", k, k)
		}
		return sb.String(), true
	}
	in.unsupported("map key kind")
	return nil, false
}

func (in *Interp) mapFind(m *MapObj, key Value) int {
	kl := in.lay.of(m.KT)
	ck, concrete := in.canonKey(key, kl)
	if concrete {
		if i, ok := m.Idx[ck]; ok {
			return i
		}
		if len(m.Idx) == len(m.Keys) {
			return -1
		}
	}
	for i := range m.Keys {
		if concrete {
			if _, c2 := in.canonKey(m.Keys[i], kl); c2 {
				continue // concrete entries were covered by Idx
			}
		}
		e := in.eqValues(key, m.Keys[i], kl)
		if e.T == nil {
			if e.C != 0 {
				return i
			}
			continue
		}
		taken := e.C != 0
		in.addDecision(e.T, taken, DMapKey)
		if taken {
			return i
		}
	}
	return -1
}

func (in *Interp) mapTouch(m *MapObj) {
	if m.Flags&FFrozen != 0 || (in.frozenAll && m.ID <= in.freezeID) {
		if in.onceDepth == 0 {
			in.Hooks.Violation(in, "frozen-write", "update of frozen map in "+in.where())
		}
	}
	if in.inPath && m.ID <= in.pathBaseID {
		for _, e := range in.mjournal {
			if e.m == m {
				return
			}
		}
		in.mjournal = append(in.mjournal, mapJournalEntry{m: m, keys: append([]Value(nil), m.Keys...), vals: append([]Value(nil), m.Vals...)})
	}
}

func (in *Interp) mapUpdate(mv, key, val Value) {
	if mv.K != KMap {
		panic(&goPanic{msg: "assignment to entry in nil map", rt: true})
	}
	m := mv.R.(*MapObj)
	in.mapTouch(m)
	i := in.mapFind(m, key)
	if i >= 0 {
		m.Vals[i] = val
		return
	}
	m.Keys = append(m.Keys, key)
	m.Vals = append(m.Vals, val)
	if ck, ok := in.canonKey(key, in.lay.of(m.KT)); ok {
		m.Idx[ck] = len(m.Keys) - 1
	}
}

func (in *Interp) mapDelete(mv, key Value) {
	if mv.K != KMap {
		return
	}
	m := mv.R.(*MapObj)
	i := in.mapFind(m, key)
	if i < 0 {
		return
	}
	in.mapTouch(m)
	m.Keys = append(append([]Value(nil), m.Keys[:i]...), m.Keys[i+1:]...)
	m.Vals = append(append([]Value(nil), m.Vals[:i]...), m.Vals[i+1:]...)
	m.Idx = map[any]int{}
	kl := in.lay.of(m.KT)
	for j := range m.Keys {
		if ck, ok := in.canonKey(m.Keys[j], kl); ok {
			m.Idx[ck] = j
		}
	}
}

func (in *Interp) rebuildIdx(m *MapObj) {
	m.Idx = map[any]int{}
	kl := in.lay.of(m.KT)
	for j := range m.Keys {
		if ck, ok := in.canonKey(m.Keys[j], kl); ok {
			m.Idx[ck] = j
		}
	}
}

func (in *Interp) doLookup(fr *frame, ci *cinstr) Value {
	lk := ci.ins.(*ssa.Lookup)
	x, key := in.get(fr, &ci.o[0]), in.get(fr, &ci.o[1])
	if _, ok := lk.X.Type().Underlying().(*types.Map); !ok {
		// string index
		return in.stringIndex(x, key, in.lay.of(lk.Index.Type()).Signed)
	}
	vt := lk.X.Type().Underlying().(*types.Map).Elem()
	var res Value
	found := false
	if x.K == KMap {
		m := x.R.(*MapObj)
		if i := in.mapFind(m, key); i >= 0 {
			res, found = m.Vals[i], true
		}
	}
	if !found {
		res = in.zeroValue(in.lay.of(vt))
	}
	if lk.CommaOk {
		return Value{K: KTuple, R: []Value{res, boolV(found)}}
	}
	return res
}

// ---------------------------------------------------------------- range

type iter struct {
	isStr bool
	s     Value
	pos   int
	keys  []Value
	vals  []Value
}

func (in *Interp) doRange(fr *frame, ci *cinstr) Value {
	r := ci.ins.(*ssa.Range)
	x := in.get(fr, &ci.o[0])
	if _, ok := r.X.Type().Underlying().(*types.Map); ok {
		it := &iter{}
		if x.K == KMap {
			m := x.R.(*MapObj)
			it.keys = append([]Value(nil), m.Keys...)
			it.vals = append([]Value(nil), m.Vals...)
		}
		return Value{K: KIter, R: it}
	}
	return Value{K: KIter, R: &iter{isStr: true, s: x}}
}

func (in *Interp) doNext(fr *frame, ci *cinstr) Value {
	it := in.get(fr, &ci.o[0]).R.(*iter)
	if !it.isStr {
		if it.pos >= len(it.keys) {
			return Value{K: KTuple, R: []Value{boolV(false), {}, {}}}
		}
		k, v := it.keys[it.pos], it.vals[it.pos]
		it.pos++
		return Value{K: KTuple, R: []Value{boolV(true), k, v}}
	}
	n := strLen(it.s)
	if it.pos >= n {
		return Value{K: KTuple, R: []Value{boolV(false), intV(0, 64), intV(0, 32)}}
	}
	pos := it.pos
	if s, ok := it.s.R.(string); ok {
		r, sz := utf8.DecodeRuneInString(s[pos:])
		it.pos += sz
		return Value{K: KTuple, R: []Value{boolV(true), intV(uint64(pos), 64), intV(uint64(r), 32)}}
	}
	b := strByte(it.s, pos)
	if b.T == nil && b.C < utf8.RuneSelf {
		it.pos++
		return Value{K: KTuple, R: []Value{boolV(true), intV(uint64(pos), 64), intV(b.C, 32)}}
	}
	f := in.Prog.ImportedPackage("unicode/utf8").Func("DecodeRuneInString")
	res := in.call(in.info(f), []Value{strSlice(it.s, pos, n)}, nil, ci).R.([]Value)
	sz := in.concretize(res[1], true)
	it.pos += int(sz)
	return Value{K: KTuple, R: []Value{boolV(true), intV(uint64(pos), 64), res[0]}}
}

var _ = strconv.Itoa
