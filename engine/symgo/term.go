// Package symgo is a concolic (concrete shadow + symbolic term) interpreter for
// go/ssa with generational path exploration decided by an SMT solver.
package symgo

import (
	"fmt"
	"math/bits"
	"strconv"
	"strings"
)

// Op is a term operator.
type Op uint8

const (
	OpVar Op = iota
	OpConst
	// Bool
	OpNot
	OpAnd
	OpOr
	OpEq // over BV or Bool
	OpUlt
	OpUle
	OpSlt
	OpSle
	OpIte // W = width of branches (0 for Bool)
	// BV
	OpAdd
	OpSub
	OpMul
	OpBvAnd
	OpBvOr
	OpBvXor
	OpBvNot
	OpNeg
	OpShl
	OpLshr
	OpAshr
	OpUdiv
	OpUrem
	OpSdiv
	OpSrem
	OpZext
	OpSext
	OpTrunc // extract low W bits
)

var opSMT = [...]string{
	OpNot: "not", OpAnd: "and", OpOr: "or", OpEq: "=", OpUlt: "bvult", OpUle: "bvule",
	OpSlt: "bvslt", OpSle: "bvsle", OpIte: "ite", OpAdd: "bvadd", OpSub: "bvsub", OpMul: "bvmul",
	OpBvAnd: "bvand", OpBvOr: "bvor", OpBvXor: "bvxor", OpBvNot: "bvnot", OpNeg: "bvneg",
	OpShl: "bvshl", OpLshr: "bvlshr", OpAshr: "bvashr", OpUdiv: "bvudiv", OpUrem: "bvurem",
	OpSdiv: "bvsdiv", OpSrem: "bvsrem",
}

// Term is a hash-consed QF_BV / Bool expression. W==0 means Bool.
type Term struct {
	Op      Op
	W       uint8
	A, B, C *Term
	V       uint64 // const value, or variable index
	ID      uint32
	H1, H2  uint64 // structural hash (independent of ID; equal across workers)
	S1, S2  uint64 // shape hash: as H1/H2 but with every variable index replaced by 0
	bm      *[4]uint64 // truth8 memo
	vars    []uint32 // sorted variable indices (lazy)
	varsOK  bool
	defined uint32 // solver generation in which a define-fun was emitted
}

type termKey struct {
	op      Op
	w       uint8
	a, b, c uint32
	v       uint64
}

// TermTab is a per-worker hash-consing table.
type TermTab struct {
	tab    map[termKey]*Term
	nextID uint32
	tt, ff *Term
}

func NewTermTab() *TermTab {
	tt := &TermTab{tab: make(map[termKey]*Term, 1<<12)}
	tt.tt = tt.mk(OpConst, 0, nil, nil, nil, 1)
	tt.ff = tt.mk(OpConst, 0, nil, nil, nil, 0)
	return tt
}

func (tt *TermTab) Size() int { return len(tt.tab) }

func tid(t *Term) uint32 {
	if t == nil {
		return 0
	}
	return t.ID
}

func (tt *TermTab) mk(op Op, w uint8, a, b, c *Term, v uint64) *Term {
	k := termKey{op, w, tid(a), tid(b), tid(c), v}
	if t, ok := tt.tab[k]; ok {
		return t
	}
	tt.nextID++
	t := &Term{Op: op, W: w, A: a, B: b, C: c, V: v, ID: tt.nextID}
	h1 := mix64(0x9e3779b97f4a7c15^uint64(op)<<8^uint64(w), v)
	h2 := mix64(0xc2b2ae3d27d4eb4f^uint64(op)<<16^uint64(w), v+0x1234567)
	sv := v
	if op == OpVar {
		sv = 0
	}
	s1 := mix64(0x9e3779b97f4a7c15^uint64(op)<<8^uint64(w), sv)
	s2 := mix64(0xc2b2ae3d27d4eb4f^uint64(op)<<16^uint64(w), sv+0x1234567)
	for _, ch := range [3]*Term{a, b, c} {
		if ch != nil {
			h1 = mix64(h1, ch.H1)
			h2 = mix64(h2, ch.H2)
			s1 = mix64(s1, ch.S1)
			s2 = mix64(s2, ch.S2)
		} else {
			h1 = mix64(h1, 1)
			h2 = mix64(h2, 2)
			s1 = mix64(s1, 1)
			s2 = mix64(s2, 2)
		}
	}
	t.H1, t.H2 = h1, h2
	t.S1, t.S2 = s1, s2
	tt.tab[k] = t
	return t
}

func mix64(a, b uint64) uint64 {
	x := a ^ (b + 0x9e3779b97f4a7c15 + (a << 6) + (a >> 2))
	x ^= x >> 30
	x *= 0xbf58476d1ce4e5b9
	x ^= x >> 27
	x *= 0x94d049bb133111eb
	x ^= x >> 31
	return x
}

func wmask(w uint8) uint64 {
	if w >= 64 {
		return ^uint64(0)
	}
	if w == 0 {
		return 1
	}
	return (uint64(1) << w) - 1
}

func sext64(c uint64, w uint8) int64 {
	if w >= 64 || w == 0 {
		return int64(c)
	}
	sh := 64 - uint(w)
	return int64(c<<sh) >> sh
}

func (tt *TermTab) Var(idx int, w uint8) *Term { return tt.mk(OpVar, w, nil, nil, nil, uint64(idx)) }
func (tt *TermTab) Const(v uint64, w uint8) *Term {
	return tt.mk(OpConst, w, nil, nil, nil, v&wmask(w))
}
func (tt *TermTab) Bool(b bool) *Term {
	if b {
		return tt.tt
	}
	return tt.ff
}
func (t *Term) IsConst() bool { return t.Op == OpConst }

func (tt *TermTab) Not(a *Term) *Term {
	if a.Op == OpConst {
		return tt.Bool(a.V == 0)
	}
	if a.Op == OpNot {
		return a.A
	}
	return tt.mk(OpNot, 0, a, nil, nil, 0)
}

func (tt *TermTab) And(a, b *Term) *Term {
	if a.Op == OpConst {
		if a.V != 0 {
			return b
		}
		return a
	}
	if b.Op == OpConst {
		if b.V != 0 {
			return a
		}
		return b
	}
	if a == b {
		return a
	}
	return tt.mk(OpAnd, 0, a, b, nil, 0)
}

func (tt *TermTab) Or(a, b *Term) *Term {
	if a.Op == OpConst {
		if a.V != 0 {
			return a
		}
		return b
	}
	if b.Op == OpConst {
		if b.V != 0 {
			return b
		}
		return a
	}
	if a == b {
		return a
	}
	return tt.mk(OpOr, 0, a, b, nil, 0)
}

// narrowCmp tries to rewrite cmp(zext(x), const) into cmp(x, const') on the
// narrow width; returns nil if not applicable.
func (tt *TermTab) narrowCmp(op Op, a, b *Term) *Term {
	if a.Op == OpZext && b.Op == OpConst {
		iw := a.A.W
		if b.V <= wmask(iw) {
			switch op {
			case OpEq, OpUlt, OpUle:
				return tt.Cmp(op, a.A, tt.Const(b.V, iw))
			case OpSlt, OpSle:
				// both operands non-negative in the wide width (zext of narrower)
				if iw < a.W {
					if op == OpSlt {
						return tt.Cmp(OpUlt, a.A, tt.Const(b.V, iw))
					}
					return tt.Cmp(OpUle, a.A, tt.Const(b.V, iw))
				}
			}
		} else if iw < a.W {
			// constant outside the zext range
			bs := sext64(b.V, a.W)
			switch op {
			case OpEq:
				return tt.ff
			case OpUlt, OpUle:
				return tt.tt
			case OpSlt, OpSle:
				return tt.Bool(bs > 0)
			}
		}
	}
	if b.Op == OpZext && a.Op == OpConst {
		iw := b.A.W
		if a.V <= wmask(iw) {
			switch op {
			case OpEq, OpUlt, OpUle:
				return tt.Cmp(op, tt.Const(a.V, iw), b.A)
			case OpSlt, OpSle:
				if iw < b.W {
					if op == OpSlt {
						return tt.Cmp(OpUlt, tt.Const(a.V, iw), b.A)
					}
					return tt.Cmp(OpUle, tt.Const(a.V, iw), b.A)
				}
			}
		} else if iw < b.W {
			as := sext64(a.V, b.W)
			switch op {
			case OpEq:
				return tt.ff
			case OpUlt, OpUle:
				return tt.ff
			case OpSlt, OpSle:
				return tt.Bool(as < 0)
			}
		}
	}
	if a.Op == OpZext && b.Op == OpZext && a.A.W == b.A.W && a.A.W < a.W {
		switch op {
		case OpEq, OpUlt, OpUle:
			return tt.Cmp(op, a.A, b.A)
		case OpSlt:
			return tt.Cmp(OpUlt, a.A, b.A)
		case OpSle:
			return tt.Cmp(OpUle, a.A, b.A)
		}
	}
	return nil
}

// Cmp builds a comparison (OpEq, OpUlt, OpUle, OpSlt, OpSle).
func (tt *TermTab) Cmp(op Op, a, b *Term) *Term {
	if a.W != b.W {
		panic(fmt.Sprintf("Cmp width mismatch %d %d", a.W, b.W))
	}
	if a.Op == OpConst && b.Op == OpConst {
		w := a.W
		switch op {
		case OpEq:
			return tt.Bool(a.V == b.V)
		case OpUlt:
			return tt.Bool(a.V < b.V)
		case OpUle:
			return tt.Bool(a.V <= b.V)
		case OpSlt:
			return tt.Bool(sext64(a.V, w) < sext64(b.V, w))
		case OpSle:
			return tt.Bool(sext64(a.V, w) <= sext64(b.V, w))
		}
	}
	if a == b {
		switch op {
		case OpEq, OpUle, OpSle:
			return tt.tt
		default:
			return tt.ff
		}
	}
	if a.W == 0 && op == OpEq {
		// Bool equality
		if a.Op == OpConst {
			if a.V != 0 {
				return b
			}
			return tt.Not(b)
		}
		if b.Op == OpConst {
			if b.V != 0 {
				return a
			}
			return tt.Not(a)
		}
	}
	if r := tt.narrowCmp(op, a, b); r != nil {
		return r
	}
	// ite(c, k1, k2) == k  with constants
	if op == OpEq {
		if a.Op == OpConst {
			a, b = b, a
		}
		if b.Op == OpConst && a.Op == OpIte && a.B.Op == OpConst && a.C.Op == OpConst {
			tb, fb := a.B.V == b.V, a.C.V == b.V
			switch {
			case tb && fb:
				return tt.tt
			case tb:
				return a.A
			case fb:
				return tt.Not(a.A)
			default:
				return tt.ff
			}
		}
		if a.ID > b.ID && b.Op != OpConst {
			a, b = b, a
		}
	}
	return tt.mk(op, 0, a, b, nil, 0)
}

func (tt *TermTab) Ite(c, a, b *Term) *Term {
	if c.Op == OpConst {
		if c.V != 0 {
			return a
		}
		return b
	}
	if a == b {
		return a
	}
	if a.W == 0 {
		if a.Op == OpConst && b.Op == OpConst {
			if a.V != 0 {
				return c
			}
			return tt.Not(c)
		}
	}
	return tt.mk(OpIte, a.W, c, a, b, 0)
}

func evalBin(op Op, w uint8, x, y uint64) uint64 {
	m := wmask(w)
	switch op {
	case OpAdd:
		return (x + y) & m
	case OpSub:
		return (x - y) & m
	case OpMul:
		return (x * y) & m
	case OpBvAnd:
		return x & y
	case OpBvOr:
		return x | y
	case OpBvXor:
		return x ^ y
	case OpShl:
		if y >= uint64(w) {
			return 0
		}
		return (x << y) & m
	case OpLshr:
		if y >= uint64(w) {
			return 0
		}
		return x >> y
	case OpAshr:
		sx := sext64(x, w)
		if y >= uint64(w) {
			if sx < 0 {
				return m
			}
			return 0
		}
		return uint64(sx>>y) & m
	case OpUdiv:
		if y == 0 {
			return m
		}
		return x / y
	case OpUrem:
		if y == 0 {
			return x
		}
		return x % y
	case OpSdiv:
		sx, sy := sext64(x, w), sext64(y, w)
		if sy == 0 {
			if sx < 0 {
				return 1
			}
			return m
		}
		if sy == -1 {
			return uint64(-sx) & m
		}
		return uint64(sx/sy) & m
	case OpSrem:
		sx, sy := sext64(x, w), sext64(y, w)
		if sy == 0 {
			return x
		}
		if sy == -1 {
			return 0
		}
		return uint64(sx%sy) & m
	}
	panic("evalBin")
}

// Bin builds a binary bit-vector operation.
func (tt *TermTab) Bin(op Op, a, b *Term) *Term {
	if a.W != b.W {
		panic(fmt.Sprintf("Bin width mismatch %d %d op %d", a.W, b.W, op))
	}
	w := a.W
	if a.Op == OpConst && b.Op == OpConst {
		return tt.Const(evalBin(op, w, a.V, b.V), w)
	}
	switch op {
	case OpAdd:
		if a.Op == OpConst && a.V == 0 {
			return b
		}
		if b.Op == OpConst && b.V == 0 {
			return a
		}
	case OpSub:
		if b.Op == OpConst && b.V == 0 {
			return a
		}
		if a == b {
			return tt.Const(0, w)
		}
	case OpMul:
		if a.Op == OpConst && a.V == 1 {
			return b
		}
		if b.Op == OpConst && b.V == 1 {
			return a
		}
		if (a.Op == OpConst && a.V == 0) || (b.Op == OpConst && b.V == 0) {
			return tt.Const(0, w)
		}
	case OpBvAnd:
		if a.Op == OpConst {
			a, b = b, a
		}
		if b.Op == OpConst {
			if b.V == 0 {
				return b
			}
			if b.V == wmask(w) {
				return a
			}
			// and(zext(x), k) where k covers x's bits
			if a.Op == OpZext && b.V&wmask(a.A.W) == wmask(a.A.W) {
				return a
			}
			if a.Op == OpZext {
				return tt.Zext(tt.Bin(OpBvAnd, a.A, tt.Const(b.V&wmask(a.A.W), a.A.W)), w)
			}
		}
		if a == b {
			return a
		}
	case OpBvOr, OpBvXor:
		if a.Op == OpConst && a.V == 0 {
			return b
		}
		if b.Op == OpConst && b.V == 0 {
			return a
		}
	case OpShl, OpLshr, OpAshr:
		if b.Op == OpConst && b.V == 0 {
			return a
		}
	}
	return tt.mk(op, w, a, b, nil, 0)
}

func (tt *TermTab) BvNot(a *Term) *Term {
	if a.Op == OpConst {
		return tt.Const(^a.V, a.W)
	}
	return tt.mk(OpBvNot, a.W, a, nil, nil, 0)
}

func (tt *TermTab) Neg(a *Term) *Term {
	if a.Op == OpConst {
		return tt.Const(-a.V, a.W)
	}
	return tt.mk(OpNeg, a.W, a, nil, nil, 0)
}

func (tt *TermTab) Zext(a *Term, w uint8) *Term {
	if a.W == w {
		return a
	}
	if a.W > w {
		return tt.Trunc(a, w)
	}
	if a.Op == OpConst {
		return tt.Const(a.V, w)
	}
	if a.Op == OpZext {
		return tt.mk(OpZext, w, a.A, nil, nil, 0)
	}
	return tt.mk(OpZext, w, a, nil, nil, 0)
}

func (tt *TermTab) Sext(a *Term, w uint8) *Term {
	if a.W == w {
		return a
	}
	if a.W > w {
		return tt.Trunc(a, w)
	}
	if a.Op == OpConst {
		return tt.Const(uint64(sext64(a.V, a.W)), w)
	}
	if a.Op == OpZext && a.A.W < a.W {
		return tt.mk(OpZext, w, a.A, nil, nil, 0)
	}
	return tt.mk(OpSext, w, a, nil, nil, 0)
}

func (tt *TermTab) Trunc(a *Term, w uint8) *Term {
	if a.W == w {
		return a
	}
	if a.W < w {
		panic("Trunc widening")
	}
	if a.Op == OpConst {
		return tt.Const(a.V, w)
	}
	if a.Op == OpZext || a.Op == OpSext {
		if a.A.W == w {
			return a.A
		}
		if a.A.W < w {
			if a.Op == OpZext {
				return tt.Zext(a.A, w)
			}
			return tt.Sext(a.A, w)
		}
		return tt.Trunc(a.A, w)
	}
	if a.Op == OpTrunc {
		return tt.mk(OpTrunc, w, a.A, nil, nil, 0)
	}
	return tt.mk(OpTrunc, w, a, nil, nil, 0)
}

// Vars returns the sorted variable indices of t.
func (t *Term) Vars() []uint32 {
	if t.varsOK {
		return t.vars
	}
	var r []uint32
	switch t.Op {
	case OpVar:
		r = []uint32{uint32(t.V)}
	case OpConst:
	default:
		if t.A != nil {
			r = t.A.Vars()
		}
		if t.B != nil {
			r = mergeVars(r, t.B.Vars())
		}
		if t.C != nil {
			r = mergeVars(r, t.C.Vars())
		}
	}
	t.vars, t.varsOK = r, true
	return r
}

func mergeVars(a, b []uint32) []uint32 {
	if len(a) == 0 {
		return b
	}
	if len(b) == 0 {
		return a
	}
	// fast path: identical
	if len(a) == len(b) {
		same := true
		for i := range a {
			if a[i] != b[i] {
				same = false
				break
			}
		}
		if same {
			return a
		}
	}
	r := make([]uint32, 0, len(a)+len(b))
	i, j := 0, 0
	for i < len(a) && j < len(b) {
		switch {
		case a[i] < b[j]:
			r = append(r, a[i])
			i++
		case a[i] > b[j]:
			r = append(r, b[j])
			j++
		default:
			r = append(r, a[i])
			i++
			j++
		}
	}
	r = append(r, a[i:]...)
	r = append(r, b[j:]...)
	return r
}

// Eval evaluates t under model (variable index -> value); missing = 0.
func (t *Term) Eval(model []uint64) uint64 {
	memo := map[*Term]uint64{}
	return t.eval(model, memo)
}

func (t *Term) eval(model []uint64, memo map[*Term]uint64) uint64 {
	switch t.Op {
	case OpConst:
		return t.V
	case OpVar:
		if int(t.V) < len(model) {
			return model[t.V] & wmask(t.W)
		}
		return 0
	}
	if v, ok := memo[t]; ok {
		return v
	}
	var r uint64
	b2u := func(b bool) uint64 {
		if b {
			return 1
		}
		return 0
	}
	switch t.Op {
	case OpNot:
		r = t.A.eval(model, memo) ^ 1
	case OpAnd:
		r = t.A.eval(model, memo) & t.B.eval(model, memo)
	case OpOr:
		r = t.A.eval(model, memo) | t.B.eval(model, memo)
	case OpEq:
		r = b2u(t.A.eval(model, memo) == t.B.eval(model, memo))
	case OpUlt:
		r = b2u(t.A.eval(model, memo) < t.B.eval(model, memo))
	case OpUle:
		r = b2u(t.A.eval(model, memo) <= t.B.eval(model, memo))
	case OpSlt:
		r = b2u(sext64(t.A.eval(model, memo), t.A.W) < sext64(t.B.eval(model, memo), t.A.W))
	case OpSle:
		r = b2u(sext64(t.A.eval(model, memo), t.A.W) <= sext64(t.B.eval(model, memo), t.A.W))
	case OpIte:
		if t.A.eval(model, memo) != 0 {
			r = t.B.eval(model, memo)
		} else {
			r = t.C.eval(model, memo)
		}
	case OpBvNot:
		r = ^t.A.eval(model, memo) & wmask(t.W)
	case OpNeg:
		r = -t.A.eval(model, memo) & wmask(t.W)
	case OpZext:
		r = t.A.eval(model, memo)
	case OpSext:
		r = uint64(sext64(t.A.eval(model, memo), t.A.W)) & wmask(t.W)
	case OpTrunc:
		r = t.A.eval(model, memo) & wmask(t.W)
	default:
		r = evalBin(t.Op, t.W, t.A.eval(model, memo), t.B.eval(model, memo))
	}
	memo[t] = r
	return r
}

func sortStr(w uint8) string {
	if w == 0 {
		return "Bool"
	}
	return "(_ BitVec " + strconv.Itoa(int(w)) + ")"
}

func constSMT(v uint64, w uint8) string {
	if w == 0 {
		if v != 0 {
			return "true"
		}
		return "false"
	}
	if w%4 == 0 {
		s := strconv.FormatUint(v, 16)
		n := int(w) / 4
		if len(s) < n {
			s = strings.Repeat("0", n-len(s)) + s
		}
		return "#x" + s
	}
	return "(_ bv" + strconv.FormatUint(v, 10) + " " + strconv.Itoa(int(w)) + ")"
}

// ref returns the SMT name by which t is referenced in a solver session
// (variables and constants inline, everything else as a defined symbol tN).
func (t *Term) ref() string {
	switch t.Op {
	case OpVar:
		return "v" + strconv.FormatUint(t.V, 10) + "w" + strconv.Itoa(int(t.W))
	case OpConst:
		return constSMT(t.V, t.W)
	}
	return "t" + strconv.FormatUint(uint64(t.ID), 10)
}

// body returns the SMT expression of t in terms of refs of its children.
func (t *Term) body() string {
	switch t.Op {
	case OpVar, OpConst:
		return t.ref()
	case OpZext:
		return "((_ zero_extend " + strconv.Itoa(int(t.W-t.A.W)) + ") " + t.A.ref() + ")"
	case OpSext:
		return "((_ sign_extend " + strconv.Itoa(int(t.W-t.A.W)) + ") " + t.A.ref() + ")"
	case OpTrunc:
		return "((_ extract " + strconv.Itoa(int(t.W)-1) + " 0) " + t.A.ref() + ")"
	}
	s := "(" + opSMT[t.Op] + " " + t.A.ref()
	if t.B != nil {
		s += " " + t.B.ref()
	}
	if t.C != nil {
		s += " " + t.C.ref()
	}
	return s + ")"
}

// String renders the full expression (for diagnostics; may be large).
func (t *Term) String() string {
	switch t.Op {
	case OpVar, OpConst:
		return t.ref()
	case OpZext:
		return "(zext" + strconv.Itoa(int(t.W)) + " " + t.A.String() + ")"
	case OpSext:
		return "(sext" + strconv.Itoa(int(t.W)) + " " + t.A.String() + ")"
	case OpTrunc:
		return "(trunc" + strconv.Itoa(int(t.W)) + " " + t.A.String() + ")"
	}
	s := "(" + opSMT[t.Op] + " " + t.A.String()
	if t.B != nil {
		s += " " + t.B.String()
	}
	if t.C != nil {
		s += " " + t.C.String()
	}
	return s + ")"
}

var _ = bits.Len
