package symgo

import (
	"go/types"
)

// Summary of fmt's formatting for the verbs and operand kinds the library could
// plausibly use (%s %v %d %q %x %c %%, no flags / width / precision, operands of
// string, []byte, integer and bool kind). The format string must be concrete; the
// operands may carry symbolic bytes. %q and %d are not re-implemented: the real
// strconv.Quote / strconv.FormatInt SSA is executed. Anything else is reported as
// unsupported (never a pass, never a violation).

func (in *Interp) fmtFormat(format string, args []Value, site *cinstr) []Value {
	var out []Value
	lit := func(s string) {
		for i := 0; i < len(s); i++ {
			out = append(out, intV(uint64(s[i]), 8))
		}
	}
	strconvPkg := in.Prog.ImportedPackage("strconv")
	ai := 0
	for i := 0; i < len(format); i++ {
		c := format[i]
		if c != '%' {
			out = append(out, intV(uint64(c), 8))
			continue
		}
		i++
		if i >= len(format) {
			in.unsupported("fmt: format ends in %")
		}
		verb := format[i]
		if verb == '%' {
			out = append(out, intV('%', 8))
			continue
		}
		if ai >= len(args) {
			in.unsupported("fmt: missing operand")
		}
		arg := args[ai]
		ai++
		var v Value
		var t types.Type
		if arg.K == KIface {
			ifc := arg.R.(*Iface)
			v, t = ifc.V, ifc.T
		} else {
			in.unsupported("fmt: nil or non-interface operand")
		}
		ut := t.Underlying()
		isString := false
		isBytes := false
		isInt := false
		signed := false
		if b, ok := ut.(*types.Basic); ok {
			switch {
			case b.Info()&types.IsString != 0:
				isString = true
			case b.Info()&types.IsInteger != 0:
				isInt = true
				signed = b.Info()&types.IsUnsigned == 0
			}
		} else if sl, ok := ut.(*types.Slice); ok {
			if eb, ok := sl.Elem().Underlying().(*types.Basic); ok && eb.Kind() == types.Uint8 {
				isBytes = true
			}
		}
		asString := func() Value {
			if isString {
				return v
			}
			return strFromCells(append([]Value(nil), sliceCells(v)...))
		}
		switch {
		case (verb == 's' || verb == 'v') && (isString || isBytes) && !(verb == 'v' && isBytes):
			out = append(out, sliceCells(asString())...)
		case verb == 'q' && (isString || isBytes):
			if strconvPkg == nil || strconvPkg.Func("Quote") == nil {
				in.unsupported("fmt: strconv.Quote not loaded")
			}
			r := in.call(in.info(strconvPkg.Func("Quote")), []Value{asString()}, nil, site)
			out = append(out, strCells(r)...)
		case (verb == 'd' || verb == 'v') && isInt:
			if strconvPkg == nil || strconvPkg.Func("FormatInt") == nil {
				in.unsupported("fmt: strconv.FormatInt not loaded")
			}
			x := in.convertInt(v, signed, 64)
			var r Value
			if signed {
				r = in.call(in.info(strconvPkg.Func("FormatInt")), []Value{x, intV(10, 64)}, nil, site)
			} else {
				r = in.call(in.info(strconvPkg.Func("FormatUint")), []Value{x, intV(10, 64)}, nil, site)
			}
			out = append(out, strCells(r)...)
		case verb == 'c' && isInt && v.T == nil && v.C < 0x80:
			out = append(out, intV(v.C, 8))
		default:
			in.unsupported("fmt: verb %" + string(verb) + " with operand of type " + t.String())
		}
	}
	if ai != len(args) {
		lit("%!(EXTRA)")
	}
	return out
}

// variadicArgs returns the elements of the ...any parameter.
func variadicArgs(v Value) []Value {
	if v.K != KSlice {
		return nil
	}
	o := v.R.(*Obj)
	return o.Cells[int(v.C) : int(v.C)+int(v.N)]
}
