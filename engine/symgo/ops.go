package symgo

import (
	"fmt"
	"go/token"
	"go/types"
	"unicode/utf8"
)

func b2u(b bool) uint64 {
	if b {
		return 1
	}
	return 0
}

func (in *Interp) termOf(v Value) *Term {
	if v.T != nil {
		return v.T
	}
	switch v.K {
	case KBool:
		return in.TT.Bool(v.C != 0)
	case KInt:
		return in.TT.Const(v.C, v.W)
	}
	panic(fmt.Sprintf("termOf kind %d", v.K))
}

// mkBool builds a bool Value from shadow and optional term (dropping constant terms).
func mkBool(c bool, t *Term) Value {
	v := Value{K: KBool, C: b2u(c)}
	if t != nil && t.Op != OpConst {
		v.T = t
	} else if t != nil && (t.V != 0) != c {
		panic("mkBool: shadow disagrees with constant term")
	}
	return v
}

func mkInt(c uint64, w uint8, t *Term) Value {
	v := Value{K: KInt, W: w, C: c & wmask(w)}
	if t != nil && t.Op != OpConst {
		v.T = t
	} else if t != nil && t.V != v.C {
		panic(fmt.Sprintf("mkInt: shadow %d disagrees with constant term %d", v.C, t.V))
	}
	return v
}

func (in *Interp) notV(x Value) Value {
	r := Value{K: KBool, C: x.C ^ 1}
	if x.T != nil {
		r.T = in.TT.Not(x.T)
	}
	return r
}

func (in *Interp) andV(x, y Value) Value {
	r := Value{K: KBool, C: x.C & y.C}
	if x.T != nil || y.T != nil {
		t := in.TT.And(in.termOf(x), in.termOf(y))
		if t.Op != OpConst {
			r.T = t
		}
	}
	return r
}

func (in *Interp) orV(x, y Value) Value {
	r := Value{K: KBool, C: x.C | y.C}
	if x.T != nil || y.T != nil {
		t := in.TT.Or(in.termOf(x), in.termOf(y))
		if t.Op != OpConst {
			r.T = t
		}
	}
	return r
}

// intBin performs integer arithmetic with Go semantics. Division by zero must be
// checked by the caller.
func (in *Interp) intBin(op token.Token, x, y Value, signed bool) Value {
	w := x.W
	if y.W != w && op != token.SHL && op != token.SHR {
		panic(fmt.Sprintf("intBin width mismatch %d %d %s", x.W, y.W, op))
	}
	var top Op
	switch op {
	case token.ADD:
		top = OpAdd
	case token.SUB:
		top = OpSub
	case token.MUL:
		top = OpMul
	case token.AND:
		top = OpBvAnd
	case token.OR:
		top = OpBvOr
	case token.XOR:
		top = OpBvXor
	case token.AND_NOT:
		ny := Value{K: KInt, W: w, C: ^y.C & wmask(w)}
		if y.T != nil {
			ny.T = in.TT.BvNot(y.T)
		}
		return in.intBin(token.AND, x, ny, signed)
	case token.QUO:
		if signed {
			top = OpSdiv
		} else {
			top = OpUdiv
		}
	case token.REM:
		if signed {
			top = OpSrem
		} else {
			top = OpUrem
		}
	case token.SHL, token.SHR:
		// y is non-negative here (checked by the caller). Bring the count to x's width,
		// saturating at w so that SMT semantics (shift >= width gives 0 / sign fill)
		// coincide with Go's.
		cnt := y.C
		if cnt > uint64(w) {
			cnt = uint64(w)
		}
		var ty *Term
		if y.T != nil {
			if y.W <= w {
				ty = in.TT.Zext(y.T, w)
			} else {
				big := in.TT.Cmp(OpUle, in.TT.Const(uint64(w), y.W), y.T)
				ty = in.TT.Ite(big, in.TT.Const(uint64(w), w), in.TT.Trunc(y.T, w))
			}
		}
		if op == token.SHL {
			top = OpShl
		} else if signed {
			top = OpAshr
		} else {
			top = OpLshr
		}
		c := evalBin(top, w, x.C, cnt)
		var t *Term
		if x.T != nil || ty != nil {
			if ty == nil {
				ty = in.TT.Const(cnt, w)
			}
			t = in.TT.Bin(top, in.termOf(x), ty)
		}
		return mkInt(c, w, t)
	default:
		panic("intBin op " + op.String())
	}
	c := evalBin(top, w, x.C, y.C)
	var t *Term
	if x.T != nil || y.T != nil {
		t = in.TT.Bin(top, in.termOf(x), in.termOf(y))
	}
	return mkInt(c, w, t)
}

func (in *Interp) intCmp(op token.Token, x, y Value, signed bool) Value {
	w := x.W
	if y.W != w {
		panic(fmt.Sprintf("intCmp width mismatch %d %d", x.W, y.W))
	}
	var res bool
	if signed {
		a, b := sext64(x.C, w), sext64(y.C, w)
		switch op {
		case token.EQL:
			res = a == b
		case token.NEQ:
			res = a != b
		case token.LSS:
			res = a < b
		case token.LEQ:
			res = a <= b
		case token.GTR:
			res = a > b
		case token.GEQ:
			res = a >= b
		}
	} else {
		a, b := x.C, y.C
		switch op {
		case token.EQL:
			res = a == b
		case token.NEQ:
			res = a != b
		case token.LSS:
			res = a < b
		case token.LEQ:
			res = a <= b
		case token.GTR:
			res = a > b
		case token.GEQ:
			res = a >= b
		}
	}
	if x.T == nil && y.T == nil {
		return boolV(res)
	}
	tx, ty := in.termOf(x), in.termOf(y)
	lt, le := OpUlt, OpUle
	if signed {
		lt, le = OpSlt, OpSle
	}
	var t *Term
	switch op {
	case token.EQL:
		t = in.TT.Cmp(OpEq, tx, ty)
	case token.NEQ:
		t = in.TT.Not(in.TT.Cmp(OpEq, tx, ty))
	case token.LSS:
		t = in.TT.Cmp(lt, tx, ty)
	case token.LEQ:
		t = in.TT.Cmp(le, tx, ty)
	case token.GTR:
		t = in.TT.Cmp(lt, ty, tx)
	case token.GEQ:
		t = in.TT.Cmp(le, ty, tx)
	}
	return mkBool(res, t)
}

// strEq compares two string values; the result may be symbolic.
func (in *Interp) strEq(a, b Value) Value {
	sa, oka := a.R.(string)
	sb, okb := b.R.(string)
	if oka && okb {
		return boolV(sa == sb)
	}
	la, lb := strLen(a), strLen(b)
	if la != lb {
		return boolV(false)
	}
	res := true
	t := in.TT.Bool(true)
	for i := 0; i < la; i++ {
		x, y := strByte(a, i), strByte(b, i)
		if x.C != y.C {
			res = false
		}
		if x.T != nil || y.T != nil {
			t = in.TT.And(t, in.TT.Cmp(OpEq, in.termOf(x), in.termOf(y)))
		} else if x.C != y.C {
			return boolV(false)
		}
	}
	return mkBool(res, t)
}

// strLess: lexicographic a < b, possibly symbolic.
func (in *Interp) strLess(a, b Value) Value {
	sa, oka := a.R.(string)
	sb, okb := b.R.(string)
	if oka && okb {
		return boolV(sa < sb)
	}
	ca, cb := strCells(a), strCells(b)
	n := len(ca)
	if len(cb) < n {
		n = len(cb)
	}
	// from the end: less_i = a[i]<b[i] || (a[i]==b[i] && less_{i+1}); base: len(a)<len(b)
	res := len(ca) < len(cb)
	t := in.TT.Bool(res)
	for i := n - 1; i >= 0; i-- {
		x, y := ca[i], cb[i]
		if x.C < y.C {
			res = true
		} else if x.C > y.C {
			res = false
		}
		tx, ty := in.termOf(x), in.termOf(y)
		t = in.TT.Or(in.TT.Cmp(OpUlt, tx, ty), in.TT.And(in.TT.Cmp(OpEq, tx, ty), t))
	}
	return mkBool(res, t)
}

// eqValues implements == for two values of static type described by l.
func (in *Interp) eqValues(a, b Value, l *Layout) Value {
	switch l.Cat {
	case tBool:
		if a.T == nil && b.T == nil {
			return boolV(a.C == b.C)
		}
		return mkBool(a.C == b.C, in.TT.Cmp(OpEq, in.termOf(a), in.termOf(b)))
	case tInt:
		return in.intCmp(token.EQL, a, b, l.Signed)
	case tString:
		return in.strEq(a, b)
	case tFloat:
		fa, _ := a.R.(float64)
		fb, _ := b.R.(float64)
		return boolV(fa == fb)
	case tPtr, tUnsafe, tChan:
		if a.K == KNil || b.K == KNil {
			return boolV(a.K == b.K)
		}
		return boolV(a.R == b.R && a.C == b.C)
	case tSlice, tMap, tFunc:
		// only comparable with nil
		if a.K == KNil || b.K == KNil {
			return boolV(a.K == b.K)
		}
		if l.Cat == tMap {
			return boolV(a.R == b.R)
		}
		in.unsupported("comparison of non-nil slice/func values")
	case tIface:
		if a.K == KNil || b.K == KNil {
			return boolV(a.K == b.K)
		}
		ia, ib := a.R.(*Iface), b.R.(*Iface)
		if !types.Identical(ia.T, ib.T) {
			return boolV(false)
		}
		return in.eqValues(ia.V, ib.V, in.lay.of(ia.T))
	case tStruct:
		res := Value{K: KBool, C: 1}
		for i, fl := range l.FLay {
			fa, fb := in.aggField(a, l, i), in.aggField(b, l, i)
			e := in.eqValues(fa, fb, fl)
			res = in.andV(res, e)
			if res.T == nil && res.C == 0 {
				return res
			}
		}
		return res
	case tArray:
		res := Value{K: KBool, C: 1}
		for i := 0; i < l.Len; i++ {
			e := in.eqValues(in.aggIndex(a, l, i), in.aggIndex(b, l, i), l.Elem)
			res = in.andV(res, e)
			if res.T == nil && res.C == 0 {
				return res
			}
		}
		return res
	}
	in.unsupported(fmt.Sprintf("eqValues on %s", l.T))
	return Value{}
}

// aggField extracts field i of an aggregate (struct) value.
func (in *Interp) aggField(v Value, l *Layout, i int) Value {
	o := v.R.(*Obj)
	off := int(v.C) + l.Fields[i]
	fl := l.FLay[i]
	if fl.isAgg() {
		return Value{K: KAgg, R: o, C: uint64(off)}
	}
	if fl.N == 0 {
		return Value{}
	}
	return o.Cells[off]
}

func (in *Interp) aggIndex(v Value, l *Layout, i int) Value {
	o := v.R.(*Obj)
	off := int(v.C) + i*l.Elem.N
	if l.Elem.isAgg() {
		return Value{K: KAgg, R: o, C: uint64(off)}
	}
	return o.Cells[off]
}

// convertInt converts an integer value between widths/signedness.
func (in *Interp) convertInt(x Value, fromSigned bool, w uint8) Value {
	if x.W == w {
		return x
	}
	if w > x.W {
		if fromSigned {
			c := uint64(sext64(x.C, x.W)) & wmask(w)
			var t *Term
			if x.T != nil {
				t = in.TT.Sext(x.T, w)
			}
			return mkInt(c, w, t)
		}
		var t *Term
		if x.T != nil {
			t = in.TT.Zext(x.T, w)
		}
		return mkInt(x.C, w, t)
	}
	var t *Term
	if x.T != nil {
		t = in.TT.Trunc(x.T, w)
	}
	return mkInt(x.C, w, t)
}

func runeToString(r rune) string {
	if r < 0 || r > utf8.MaxRune {
		r = utf8.RuneError
	}
	return string(r)
}
