package symgo

import (
	"fmt"
	"os"
	"strings"

	"golang.org/x/tools/go/ssa"
)

// initAllow lists the packages whose initialisers are executed (concretely) by
// the interpreter; globals of every other package are poisoned.
var initAllowPrefix = []string{
	"zombiezen.com/go/commonmark",
	"golang.org/x/text",
	"golang.org/x/net/html/atom",
}

var initAllow = map[string]bool{
	"bytes": true, "strings": true, "unicode": true, "unicode/utf8": true, "unicode/utf16": true,
	"html": true, "strconv": true, "io": true, "sort": true, "slices": true,
	"math/bits": true, "cmp": true, "internal/stringslite": true, "internal/byteorder": true,
	"internal/itoa": true, "iter": true, "maps": true,
}

func skipInitPkg(path string) bool {
	if initAllow[path] {
		return false
	}
	for _, p := range initAllowPrefix {
		if strings.HasPrefix(path, p) {
			return false
		}
	}
	return true
}

// RunInits executes the package initialisers of the loaded root packages.
func (in *Interp) RunInits(p *Program) {
	// errors.New must work although package errors is not initialised.
	for _, path := range []string{"zombiezen.com/go/commonmark", "zombiezen.com/go/commonmark/format"} {
		pkg := p.Pkgs[path]
		if pkg == nil {
			continue
		}
		f := pkg.Func("init")
		func() {
			defer func() {
				if r := recover(); r != nil {
					switch x := r.(type) {
					case *pathEnd:
						fmt.Fprintf(os.Stderr, "ENGINE: init of %s aborted: %s %s\n", path, x.reason, x.detail)
						panic("init failed: " + x.detail)
					case *goPanic:
						panic("init panicked: " + x.msg)
					default:
						panic(r)
					}
				}
			}()
			save := in.StepBudget
			in.StepBudget = 1 << 40
			in.call(in.info(f), nil, nil, nil)
			in.StepBudget = save
			in.Steps = 0
		}()
	}
	// overrides for globals of skipped packages that pure-Go callers read
	if ba := in.Prog.ImportedPackage("internal/bytealg"); ba != nil {
		if g, ok := ba.Members["MaxLen"].(*ssa.Global); ok {
			o := in.globalObj(g)
			o.Flags &^= FPoison
			o.Cells[0] = intV(63, 64)
		}
	}
}
