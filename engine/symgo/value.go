package symgo

import (
	"fmt"
	"go/types"
	"strings"

	"golang.org/x/tools/go/ssa"
)

type Kind uint8

const (
	KNil Kind = iota // zero value of pointer, slice, map, func, interface, chan
	KBool
	KInt
	KFloat
	KString
	KPtr
	KSlice
	KMap
	KFunc
	KIface
	KAgg // struct or array value: R=*Obj (immutable by convention), C=offset
	KTuple
	KIter
	KPoison
)

// Value is the engine's universal value. Scalars carry a concrete shadow C and
// an optional symbolic term T.
type Value struct {
	K    Kind
	W    uint8 // KInt: bit width
	N, M int32 // KSlice: len, cap (elements)
	C    uint64
	T    *Term
	R    any
}

// Obj is a heap object: a flat vector of leaf cells.
type Obj struct {
	Cells []Value
	ID    uint64
	Flags uint8
	Name  string
}

const (
	FFrozen uint8 = 1 << iota
	FGlobal       // allocated before the path started (init era)
	FPoison       // belongs to a package whose init was skipped
	FInput        // marked by harness
)

// SymStr is an immutable string with (possibly) symbolic bytes.
type SymStr struct{ B []Value }

type Closure struct {
	Fn  *ssa.Function
	Env []Value
	ID  uint64
}

type Iface struct {
	T types.Type
	V Value
}

type MapObj struct {
	Keys  []Value
	Vals  []Value
	Idx   map[any]int
	KT    types.Type
	Flags uint8
	ID    uint64
}

type ptrKey struct {
	o   *Obj
	off uint64
}

type ifaceKey struct {
	t string
	v any
}

func boolV(b bool) Value {
	if b {
		return Value{K: KBool, C: 1}
	}
	return Value{K: KBool}
}

func intV(c uint64, w uint8) Value { return Value{K: KInt, W: w, C: c & wmask(w)} }
func strV(s string) Value          { return Value{K: KString, R: s} }

func (v Value) IsNil() bool { return v.K == KNil }

func (v Value) Obj() *Obj {
	o, _ := v.R.(*Obj)
	return o
}

// ---------------------------------------------------------------- layouts

type tcat uint8

const (
	tBool tcat = iota
	tInt
	tFloat
	tString
	tPtr
	tUnsafe
	tSlice
	tMap
	tFunc
	tIface
	tStruct
	tArray
	tChan
	tTuple
	tOther
)

type Layout struct {
	T      types.Type
	Cat    tcat
	W      uint8
	Signed bool
	N      int   // number of leaves
	Fields []int // struct: leaf offset of each field
	FLay   []*Layout
	Elem   *Layout // array / slice / pointer element
	Len    int     // array length
	Zero   []Value // leaves of the zero value
}

type layouts struct {
	m map[types.Type]*Layout
}

func newLayouts() *layouts { return &layouts{m: map[types.Type]*Layout{}} }

func (ls *layouts) of(t types.Type) *Layout {
	if l, ok := ls.m[t]; ok {
		return l
	}
	l := &Layout{T: t}
	ls.m[t] = l // pre-register for recursive types through pointers
	switch u := t.Underlying().(type) {
	case *types.Basic:
		info := u.Info()
		switch {
		case info&types.IsBoolean != 0:
			l.Cat, l.N, l.Zero = tBool, 1, []Value{{K: KBool}}
		case info&types.IsInteger != 0:
			l.Cat, l.N = tInt, 1
			l.W, l.Signed = intInfo(u)
			l.Zero = []Value{{K: KInt, W: l.W}}
		case info&types.IsFloat != 0, info&types.IsComplex != 0:
			l.Cat, l.N, l.Zero = tFloat, 1, []Value{{K: KFloat}}
		case info&types.IsString != 0:
			l.Cat, l.N, l.Zero = tString, 1, []Value{{K: KString, R: ""}}
		case u.Kind() == types.UnsafePointer:
			l.Cat, l.N, l.Zero = tUnsafe, 1, []Value{{}}
		case u.Kind() == types.UntypedNil:
			l.Cat, l.N, l.Zero = tPtr, 1, []Value{{}}
		default:
			l.Cat, l.N, l.Zero = tOther, 1, []Value{{}}
		}
	case *types.Pointer:
		l.Cat, l.N, l.Zero = tPtr, 1, []Value{{}}
	case *types.Slice:
		l.Cat, l.N, l.Zero = tSlice, 1, []Value{{}}
	case *types.Map:
		l.Cat, l.N, l.Zero = tMap, 1, []Value{{}}
	case *types.Signature:
		l.Cat, l.N, l.Zero = tFunc, 1, []Value{{}}
	case *types.Interface:
		l.Cat, l.N, l.Zero = tIface, 1, []Value{{}}
	case *types.Chan:
		l.Cat, l.N, l.Zero = tChan, 1, []Value{{}}
	case *types.Struct:
		l.Cat = tStruct
		n := 0
		for i := 0; i < u.NumFields(); i++ {
			fl := ls.of(u.Field(i).Type())
			l.Fields = append(l.Fields, n)
			l.FLay = append(l.FLay, fl)
			n += fl.N
		}
		l.N = n
		l.Zero = make([]Value, 0, n)
		for _, fl := range l.FLay {
			l.Zero = append(l.Zero, fl.Zero...)
		}
	case *types.Array:
		l.Cat = tArray
		l.Elem = ls.of(u.Elem())
		l.Len = int(u.Len())
		l.N = l.Len * l.Elem.N
		if l.N <= 1<<16 {
			l.Zero = make([]Value, 0, l.N)
			for i := 0; i < l.Len; i++ {
				l.Zero = append(l.Zero, l.Elem.Zero...)
			}
		}
	case *types.Tuple:
		l.Cat, l.N = tTuple, 1
	default:
		l.Cat, l.N, l.Zero = tOther, 1, []Value{{}}
	}
	return l
}

func (l *Layout) zeroCells() []Value {
	if l.Zero != nil || l.N == 0 {
		c := make([]Value, l.N)
		copy(c, l.Zero)
		return c
	}
	c := make([]Value, 0, l.N)
	for i := 0; i < l.Len; i++ {
		c = append(c, l.Elem.Zero...)
	}
	return c
}

func (l *Layout) isAgg() bool { return l.Cat == tStruct || l.Cat == tArray }

func intInfo(b *types.Basic) (uint8, bool) {
	switch b.Kind() {
	case types.Int, types.Int64, types.UntypedInt:
		return 64, true
	case types.Uint, types.Uint64, types.Uintptr:
		return 64, false
	case types.Int32, types.UntypedRune:
		return 32, true
	case types.Uint32:
		return 32, false
	case types.Int16:
		return 16, true
	case types.Uint16:
		return 16, false
	case types.Int8:
		return 8, true
	case types.Uint8:
		return 8, false
	}
	panic("intInfo " + b.String())
}

// ---------------------------------------------------------------- strings

func strLen(v Value) int {
	switch s := v.R.(type) {
	case string:
		return len(s)
	case *SymStr:
		return len(s.B)
	}
	if v.K == KString && v.R == nil {
		return 0
	}
	panic(fmt.Sprintf("strLen of %v", v.K))
}

func strByte(v Value, i int) Value {
	switch s := v.R.(type) {
	case string:
		return Value{K: KInt, W: 8, C: uint64(s[i])}
	case *SymStr:
		return s.B[i]
	}
	panic("strByte")
}

func strCells(v Value) []Value {
	switch s := v.R.(type) {
	case string:
		c := make([]Value, len(s))
		for i := 0; i < len(s); i++ {
			c[i] = Value{K: KInt, W: 8, C: uint64(s[i])}
		}
		return c
	case *SymStr:
		return s.B
	}
	if v.R == nil {
		return nil
	}
	panic("strCells")
}

// strFromCells builds a string value from byte cells (copying); collapses to a
// concrete string when no byte is symbolic.
func strFromCells(c []Value) Value {
	sym := false
	for i := range c {
		if c[i].T != nil {
			sym = true
			break
		}
	}
	if !sym {
		b := make([]byte, len(c))
		for i := range c {
			b[i] = byte(c[i].C)
		}
		return Value{K: KString, R: string(b)}
	}
	cp := make([]Value, len(c))
	copy(cp, c)
	return Value{K: KString, R: &SymStr{B: cp}}
}

func strSlice(v Value, lo, hi int) Value {
	switch s := v.R.(type) {
	case string:
		return Value{K: KString, R: s[lo:hi]}
	case *SymStr:
		return strFromCells(s.B[lo:hi])
	}
	panic("strSlice")
}

func strConcat(a, b Value) Value {
	sa, oka := a.R.(string)
	sb, okb := b.R.(string)
	if oka && okb {
		return Value{K: KString, R: sa + sb}
	}
	ca, cb := strCells(a), strCells(b)
	c := make([]Value, 0, len(ca)+len(cb))
	c = append(c, ca...)
	c = append(c, cb...)
	return Value{K: KString, R: &SymStr{B: c}}
}

// concreteStr returns the shadow string.
func concreteStr(v Value) string {
	switch s := v.R.(type) {
	case string:
		return s
	case *SymStr:
		b := make([]byte, len(s.B))
		for i := range s.B {
			b[i] = byte(s.B[i].C)
		}
		return string(b)
	}
	return ""
}

func isSymStr(v Value) bool {
	_, ok := v.R.(*SymStr)
	return ok
}

// ---------------------------------------------------------------- diagnostics

func (v Value) String() string {
	switch v.K {
	case KNil:
		return "nil"
	case KBool:
		if v.T != nil {
			return fmt.Sprintf("bool(%v|%s)", v.C != 0, v.T)
		}
		return fmt.Sprint(v.C != 0)
	case KInt:
		if v.T != nil {
			return fmt.Sprintf("i%d(%d|sym)", v.W, v.C)
		}
		return fmt.Sprintf("%d", sext64(v.C, v.W))
	case KString:
		return fmt.Sprintf("%q", concreteStr(v))
	case KPtr:
		return fmt.Sprintf("&obj%d+%d", v.Obj().ID, v.C)
	case KSlice:
		return fmt.Sprintf("slice(obj%d+%d len %d cap %d)", v.Obj().ID, v.C, v.N, v.M)
	case KMap:
		return "map"
	case KFunc:
		return "func " + v.R.(*Closure).Fn.String()
	case KIface:
		i := v.R.(*Iface)
		return "iface{" + i.T.String() + " " + i.V.String() + "}"
	case KAgg:
		return "agg"
	case KTuple:
		var p []string
		for _, e := range v.R.([]Value) {
			p = append(p, e.String())
		}
		return "(" + strings.Join(p, ", ") + ")"
	}
	return fmt.Sprintf("kind%d", v.K)
}

// IntValue builds a concrete 64-bit integer value (for drivers).
func IntValue(c uint64) Value { return intV(c, 64) }
