package symgo

import (
	"math/big"
)

// Partition certificate: for every completed path, count the assignments that
// satisfy its path condition (per connected component of variables, by exhaustive
// evaluation with the engine's own term evaluator, independent of the solver) and
// add the fraction of the input space it covers. Over all paths the fractions must
// sum to exactly 1; a wrongly pruned branch or a duplicated path shows up as a
// different sum.

type evalNode struct {
	op      Op
	w, aw   uint8
	a, b, c int32
	v       uint64
}

type evalProg struct {
	nodes []evalNode
	vals  []uint64
	vars  []int32 // node index of each variable, in order of varIDs
	varID []uint32
	varW  []uint8
	roots []int32
	neg   []bool
}

func compileLits(lits []Lit) *evalProg {
	p := &evalProg{}
	idx := map[*Term]int32{}
	var walk func(t *Term) int32
	walk = func(t *Term) int32 {
		if i, ok := idx[t]; ok {
			return i
		}
		n := evalNode{op: t.Op, w: t.W, v: t.V, a: -1, b: -1, c: -1}
		if t.A != nil {
			n.a = walk(t.A)
			n.aw = t.A.W
		}
		if t.B != nil {
			n.b = walk(t.B)
		}
		if t.C != nil {
			n.c = walk(t.C)
		}
		i := int32(len(p.nodes))
		p.nodes = append(p.nodes, n)
		idx[t] = i
		if t.Op == OpVar {
			p.vars = append(p.vars, i)
			p.varID = append(p.varID, uint32(t.V))
			p.varW = append(p.varW, t.W)
		}
		return i
	}
	for _, l := range lits {
		p.roots = append(p.roots, walk(l.T))
		p.neg = append(p.neg, l.Neg)
	}
	p.vals = make([]uint64, len(p.nodes))
	return p
}

func (p *evalProg) holds() bool {
	vals := p.vals
	for i := range p.nodes {
		n := &p.nodes[i]
		switch n.op {
		case OpVar:
			// preset
		case OpConst:
			vals[i] = n.v
		case OpNot:
			vals[i] = vals[n.a] ^ 1
		case OpAnd:
			vals[i] = vals[n.a] & vals[n.b]
		case OpOr:
			vals[i] = vals[n.a] | vals[n.b]
		case OpEq:
			vals[i] = b2u(vals[n.a] == vals[n.b])
		case OpUlt:
			vals[i] = b2u(vals[n.a] < vals[n.b])
		case OpUle:
			vals[i] = b2u(vals[n.a] <= vals[n.b])
		case OpSlt:
			vals[i] = b2u(sext64(vals[n.a], n.aw) < sext64(vals[n.b], n.aw))
		case OpSle:
			vals[i] = b2u(sext64(vals[n.a], n.aw) <= sext64(vals[n.b], n.aw))
		case OpIte:
			if vals[n.a] != 0 {
				vals[i] = vals[n.b]
			} else {
				vals[i] = vals[n.c]
			}
		case OpBvNot:
			vals[i] = ^vals[n.a] & wmask(n.w)
		case OpNeg:
			vals[i] = -vals[n.a] & wmask(n.w)
		case OpZext:
			vals[i] = vals[n.a]
		case OpSext:
			vals[i] = uint64(sext64(vals[n.a], n.aw)) & wmask(n.w)
		case OpTrunc:
			vals[i] = vals[n.a] & wmask(n.w)
		default:
			vals[i] = evalBin(n.op, n.w, vals[n.a], vals[n.b])
		}
	}
	for k, r := range p.roots {
		if (vals[r] != 0) == p.neg[k] {
			return false
		}
	}
	return true
}

// countModels enumerates all assignments of the program's variables (total bits
// must be <= maxBits) and returns the number satisfying all literals.
func (p *evalProg) countModels(maxBits int) (int64, int, bool) {
	bits := 0
	for _, w := range p.varW {
		bits += int(w)
	}
	if bits > maxBits {
		return 0, bits, false
	}
	total := uint64(1) << uint(bits)
	var cnt int64
	for a := uint64(0); a < total; a++ {
		x := a
		for k, vi := range p.vars {
			w := p.varW[k]
			p.vals[vi] = x & wmask(w)
			x >>= w
		}
		if p.holds() {
			cnt++
		}
	}
	return cnt, bits, true
}

// pathFraction returns the fraction of the input space covered by the current
// path condition, or ok=false if a component was too large to enumerate.
func (in *Interp) pathFraction(maxBits int) (*big.Rat, bool) {
	n := len(in.PC)
	// union-find over variables
	parent := make([]int, in.NVars)
	for i := range parent {
		parent[i] = i
	}
	var find func(x int) int
	find = func(x int) int {
		for parent[x] != x {
			parent[x] = parent[parent[x]]
			x = parent[x]
		}
		return x
	}
	for i := 0; i < n; i++ {
		vs := in.PC[i].T.Vars()
		for k := 1; k < len(vs); k++ {
			a, b := find(int(vs[0])), find(int(vs[k]))
			if a != b {
				parent[a] = b
			}
		}
	}
	groups := map[int][]Lit{}
	for i := 0; i < n; i++ {
		vs := in.PC[i].T.Vars()
		if len(vs) == 0 {
			continue
		}
		r := find(int(vs[0]))
		groups[r] = append(groups[r], Lit{in.PC[i].T, !in.PC[i].Taken})
	}
	frac := big.NewRat(1, 1)
	for _, lits := range groups {
		p := compileLits(lits)
		cnt, bits, ok := p.countModels(maxBits)
		if !ok {
			return nil, false
		}
		f := new(big.Rat).SetFrac(big.NewInt(cnt), new(big.Int).Lsh(big.NewInt(1), uint(bits)))
		frac.Mul(frac, f)
	}
	return frac, true
}

// truth8 returns, for a Bool term over exactly one 8-bit variable, the set of
// variable values (as a 256-bit bitmap) under which the term is true.
func (t *Term) truth8() *[4]uint64 {
	if t.bm != nil {
		return t.bm
	}
	p := compileLits([]Lit{{T: t}})
	var bm [4]uint64
	vi := p.vars[0]
	for a := uint64(0); a < 256; a++ {
		p.vals[vi] = a
		if p.holds() {
			bm[a/64] |= 1 << (a % 64)
		}
	}
	t.bm = &bm
	return t.bm
}
