package symgo

/*
#cgo LDFLAGS: -lz3
#include <stdlib.h>
#include <z3.h>

static void noop_error_handler(Z3_context c, Z3_error_code e) {}

static Z3_context mk_ctx(void) {
	Z3_config cfg = Z3_mk_config();
	Z3_context ctx = Z3_mk_context(cfg);
	Z3_del_config(cfg);
	Z3_set_error_handler(ctx, noop_error_handler);
	return ctx;
}
*/
import "C"

import (
	"runtime"
	"unsafe"
)

// z3lib is an in-process z3 (libz3 4.8.12, the same solver as /usr/bin/z3) driven
// through its SMT-LIB2 front end; it avoids the pipe round trip of `z3 -in`.
type z3lib struct {
	ctx C.Z3_context
}

func newZ3lib() *z3lib {
	return &z3lib{ctx: C.mk_ctx()}
}

func (z *z3lib) eval(cmds string) string {
	cs := C.CString(cmds)
	defer C.free(unsafe.Pointer(cs))
	out := C.Z3_eval_smtlib2_string(z.ctx, cs)
	runtime.KeepAlive(z)
	return C.GoString(out)
}

func (z *z3lib) close() {
	if z.ctx != nil {
		C.Z3_del_context(z.ctx)
		z.ctx = nil
	}
}
