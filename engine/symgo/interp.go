package symgo

import (
	"fmt"
	"go/token"
	"go/types"
	"strings"
	"unicode/utf8"

	"golang.org/x/tools/go/ssa"
)

// goPanic is a panic of the interpreted program (explicit or runtime error).
type goPanic struct {
	v   Value
	msg string
	rt  bool
}

// pathEnd terminates the current path without a program-level outcome.
type pathEnd struct {
	reason string // "assume", "budget", "unsupported", "abort"
	detail string
}

type Decision struct {
	T     *Term
	Taken bool
	Kind  uint8
	Chain int32  // DConc: PC index at which this concretisation chain starts; -1 otherwise
	CT    *Term  // DConc: the concretised term
	CV    uint64 // DConc: the value tested by this entry
}

const (
	DIf uint8 = iota
	DConc
	DMapKey
	DAssume
	DBounds
	DCheck
)

// DebugConsistency makes every decision re-evaluate its term under the model.
var DebugConsistency bool

func (in *Interp) checkConsistent(t *Term, taken bool) {
	m := make([]uint64, in.NVars)
	copy(m, in.Model)
	if (t.Eval(m) != 0) != taken {
		panic(fmt.Sprintf("engine: shadow/term mismatch: term %s evaluates to %v under model %v but shadow took %v @ %s; instr %s at %s", t, !taken, m, taken, in.StackString(5), in.cur.ins, in.Prog.Fset.Position(in.cur.ins.Pos())))
	}
}

// DebugConc, if set, is called with the interpreted stack at every concretisation.
var DebugConc func(where string)

type intrinsicFn func(in *Interp, args []Value, site *cinstr) Value

type deferred struct {
	fi   *fnInfo
	args []Value
	env  []Value
}

type frame struct {
	fi        *fnInfo
	regs      []Value
	defers    []deferred
	panicking *goPanic
	env       []Value
}

type journalEntry struct {
	o   *Obj
	i   int
	old Value
}

type mapJournalEntry struct {
	m      *MapObj
	keys   []Value
	vals   []Value
	hadIdx bool
}

// Hooks connect the interpreter to the exploration driver.
type Hooks interface {
	// Negate is called for a fresh decision at index idx (>= bound).
	Negate(in *Interp, idx int)
	// Check is called for check(cond, clause).
	Check(in *Interp, cond Value, clause string)
	// Violation reports an engine-detected violation (frozen write, ...).
	Violation(in *Interp, clause string, detail string)
}

type Interp struct {
	Prog       *ssa.Program
	TT         *TermTab
	lay        *layouts
	fns        map[*ssa.Function]*fnInfo
	globals    map[*ssa.Global]*Obj
	intrinsics map[string]intrinsicFn
	nextID     uint64
	stack      []Value
	depth      int

	methodCache map[methodKey]*fnInfo
	implCache   map[[2]types.Type]bool

	// path state
	Model      []uint64
	NVars      int
	VarW       []uint8
	PC         []Decision
	Bound      int
	ExclIdx    int
	Excl       []uint64
	Steps      int64
	StepBudget int64
	Hooks      Hooks
	NoFork     int // >0: decisions are recorded but not negated
	pathBaseID uint64
	inPath     bool
	journal    []journalEntry
	mjournal   []mapJournalEntry
	frozenAll  bool
	freezeID   uint64
	onceDepth  int
	pools      map[ptrKey][]Value // sync.Pool contents on the current path
	Digest     []byte
	Notes      []string
	skipInit   func(pkgPath string) bool
	Trace      bool
	FnSteps    map[*fnInfo]int64
	Executed   map[string]int
	curDeferFrame []*frame
	fstack []*fnInfo
	cur *cinstr
	argStack []Value
	argSP int
}

type methodKey struct {
	t    types.Type
	name string
	pkg  *types.Package
}

func NewInterp(prog *ssa.Program) *Interp {
	in := &Interp{
		Prog:        prog,
		TT:          NewTermTab(),
		lay:         newLayouts(),
		fns:         map[*ssa.Function]*fnInfo{},
		globals:     map[*ssa.Global]*Obj{},
		intrinsics:  map[string]intrinsicFn{},
		methodCache: map[methodKey]*fnInfo{},
		implCache:   map[[2]types.Type]bool{},
		StepBudget:  20_000_000,
		Executed:    map[string]int{},
	}
	registerIntrinsics(in)
	return in
}

func (in *Interp) unsupported(msg string) {
	panic(&pathEnd{reason: "unsupported", detail: msg + " @ " + in.StackString(4)})
}

// StackString renders the innermost n interpreted frames.
func (in *Interp) StackString(n int) string {
	var sb strings.Builder
	for i := len(in.fstack) - 1; i >= 0 && n > 0; i, n = i-1, n-1 {
		if sb.Len() > 0 {
			sb.WriteString(" < ")
		}
		sb.WriteString(in.fstack[i].name)
	}
	return sb.String()
}

func (in *Interp) rtPanic(msg string) {
	panic(&goPanic{msg: "runtime error: " + msg, rt: true})
}

func (in *Interp) newObj(cells []Value) *Obj {
	in.nextID++
	return &Obj{Cells: cells, ID: in.nextID}
}

func (in *Interp) globalObj(g *ssa.Global) *Obj {
	if o, ok := in.globals[g]; ok {
		return o
	}
	l := in.lay.of(g.Type().(*types.Pointer).Elem())
	o := in.newObj(l.zeroCells())
	o.Name = g.String()
	o.Flags |= FGlobal
	if g.Pkg != nil && in.skipInit != nil && in.skipInit(g.Pkg.Pkg.Path()) {
		o.Flags |= FPoison
	}
	in.globals[g] = o
	return o
}

// ---------------------------------------------------------------- memory

func (in *Interp) writeCell(o *Obj, i int, v Value) {
	if o.Flags != 0 || in.frozenAll {
		in.checkWrite(o, i, 1)
	}
	o.Cells[i] = v
}

func (in *Interp) checkWrite(o *Obj, i, n int) {
	if o.Flags&FFrozen != 0 || (in.frozenAll && o.ID <= in.freezeID) {
		if in.onceDepth == 0 {
			in.Hooks.Violation(in, "frozen-write", fmt.Sprintf("store into frozen object %d %s (+%d) in %s", o.ID, o.Name, i, in.where()))
		}
	}
	if in.inPath && o.ID <= in.pathBaseID {
		for k := 0; k < n; k++ {
			in.journal = append(in.journal, journalEntry{o, i + k, o.Cells[i+k]})
		}
	}
}

func (in *Interp) writeCells(o *Obj, off int, src []Value) {
	if len(src) == 0 {
		return
	}
	if o.Flags != 0 || in.frozenAll || (in.inPath && o.ID <= in.pathBaseID) {
		in.checkWrite(o, off, len(src))
	}
	copy(o.Cells[off:off+len(src)], src)
}

var curFrameName string

func (in *Interp) where() string { return in.StackString(3) }

func (in *Interp) load(p Value, l *Layout) Value {
	if p.K != KPtr {
		in.rtPanic("invalid memory address or nil pointer dereference")
	}
	o := p.R.(*Obj)
	if o.Flags&FPoison != 0 {
		in.unsupported("read of global from package with skipped init: " + o.Name)
	}
	off := int(p.C)
	if l.isAgg() {
		c := make([]Value, l.N)
		copy(c, o.Cells[off:off+l.N])
		return Value{K: KAgg, R: in.newObj(c)}
	}
	if l.N == 0 {
		return Value{}
	}
	return o.Cells[off]
}

func (in *Interp) store(p Value, l *Layout, v Value) {
	if p.K != KPtr {
		in.rtPanic("invalid memory address or nil pointer dereference")
	}
	o := p.R.(*Obj)
	off := int(p.C)
	if l.isAgg() {
		if l.N == 0 {
			return
		}
		so := v.R.(*Obj)
		in.writeCells(o, off, so.Cells[int(v.C):int(v.C)+l.N])
		return
	}
	if l.N == 0 {
		return
	}
	if o.Flags != 0 || in.frozenAll || (in.inPath && o.ID <= in.pathBaseID) {
		in.checkWrite(o, off, 1)
	}
	o.Cells[off] = v
}

// ---------------------------------------------------------------- decisions

func (in *Interp) addDecision(t *Term, taken bool, kind uint8) {
	if t.Op == OpNot {
		t, taken = t.A, !taken
	}
	if DebugConsistency {
		in.checkConsistent(t, taken)
	}
	// a term already decided on this path carries no new information
	for i := len(in.PC) - 1; i >= 0; i-- {
		if in.PC[i].T == t {
			if in.PC[i].Taken != taken {
				panic("engine: shadow contradicts earlier decision on the same term")
			}
			return
		}
	}
	idx := len(in.PC)
	in.PC = append(in.PC, Decision{T: t, Taken: taken, Kind: kind, Chain: -1})
	if idx >= in.Bound && in.NoFork == 0 && kind != DCheck {
		in.Hooks.Negate(in, idx)
	}
}

func (in *Interp) branch(c Value) bool {
	taken := c.C != 0
	if c.T != nil {
		in.addDecision(c.T, taken, DIf)
	}
	return taken
}

// concretize pins a symbolic integer to its shadow value on this path.
// The decision is value specific ("T == v"), so the alternatives are explored as
// a chain: the child created by negating it re-decides the same PC slot (its
// bound is idx, not idx+1) and carries the values already visited, which are
// added as "T != e" literals whenever that slot is negated again.
func (in *Interp) concretize(v Value, signed bool) int64 {
	if v.T != nil {
		in.concDecision(v)
	}
	if signed {
		return sext64(v.C, v.W)
	}
	return int64(v.C)
}

func (in *Interp) concretizeV(v Value) Value {
	if v.T != nil {
		in.concDecision(v)
		v.T = nil
	}
	return v
}

func (in *Interp) concDecision(v Value) {
	eq := in.TT.Cmp(OpEq, v.T, in.TT.Const(v.C, v.W))
	if eq.Op == OpConst {
		return
	}
	et, etaken := eq, true
	if et.Op == OpNot {
		et, etaken = et.A, false
	}
	for i := len(in.PC) - 1; i >= 0; i-- {
		if in.PC[i].T == et && in.PC[i].Taken == etaken {
			return // already pinned on this path
		}
	}
	if DebugConc != nil {
		DebugConc(in.StackString(3))
	}
	idx := len(in.PC)
	if in.ExclIdx == idx {
		for _, e := range in.Excl {
			if e == v.C {
				panic("engine: concretisation replay hit an excluded value")
			}
		}
	}
	in.PC = append(in.PC, Decision{T: et, Taken: etaken, Kind: DConc, Chain: int32(idx), CT: v.T, CV: v.C})
	if idx >= in.Bound && in.NoFork == 0 {
		in.Hooks.Negate(in, idx)
	}
}

// Assume: a false assumption ends the path (after scheduling the other side).
func (in *Interp) Assume(c Value) {
	if c.T == nil {
		if c.C == 0 {
			panic(&pathEnd{reason: "assume"})
		}
		return
	}
	if c.C != 0 {
		// record without spawning the violating side
		t, taken := c.T, true
		if t.Op == OpNot {
			t, taken = t.A, false
		}
		in.PC = append(in.PC, Decision{T: t, Taken: taken, Kind: DAssume, Chain: -1})
		return
	}
	in.addDecision(c.T, false, DAssume)
	panic(&pathEnd{reason: "assume"})
}

// NewVar creates the next nondeterministic variable of width w.
func (in *Interp) NewVar(w uint8) Value {
	idx := in.NVars
	in.NVars++
	var c uint64
	if idx < len(in.Model) {
		c = in.Model[idx] & wmask(w)
	}
	in.VarW = append(in.VarW, w)
	return Value{K: KInt, W: w, C: c, T: in.TT.Var(idx, w)}
}

// ---------------------------------------------------------------- calls

const maxDepth = 3000

func (in *Interp) call(fi *fnInfo, args []Value, env []Value, site *cinstr) Value {
	if fi.intrinsic != nil {
		return fi.intrinsic(in, args, site)
	}
	if fi.blocks == nil {
		in.unsupported("call of function without body: " + fi.name)
	}
	fi.calls++
	in.fstack = append(in.fstack, fi)
	in.depth++
	if in.depth > maxDepth {
		panic(&pathEnd{reason: "depth", detail: fi.name})
	}
	base := len(in.stack)
	need := base + fi.nregs
	if need > cap(in.stack) {
		ns := make([]Value, need, need*2+1024)
		copy(ns, in.stack)
		in.stack = ns
	} else {
		in.stack = in.stack[:need]
	}
	regs := in.stack[base:need:need]
	copy(regs, args)
	copy(regs[len(args):], env)
	var ret Value
	if fi.hasDefer {
		ret = in.execDefer(&frame{fi: fi, regs: regs})
	} else {
		fr := frame{fi: fi, regs: regs}
		ret = in.exec(&fr, 0)
	}
	in.stack = in.stack[:base]
	in.depth--
	in.fstack = in.fstack[:len(in.fstack)-1]
	return ret
}

func (in *Interp) execDefer(fr *frame) (ret Value) {
	depth, sp, fsp := in.depth, len(in.stack), len(in.fstack)
	defer func() {
		r := recover()
		if r == nil {
			return
		}
		gp, ok := r.(*goPanic)
		if !ok {
			panic(r)
		}
		in.depth, in.stack, in.fstack = depth, in.stack[:sp], in.fstack[:fsp]
		fr.panicking = gp
		in.runDefers(fr)
		if fr.panicking != nil {
			panic(fr.panicking)
		}
		// recovered
		if fr.fi.recoverBB >= 0 {
			ret = in.exec(fr, fr.fi.recoverBB)
		} else {
			ret = Value{}
		}
	}()
	return in.exec(fr, 0)
}

func (in *Interp) runDefers(fr *frame) {
	for len(fr.defers) > 0 {
		d := fr.defers[len(fr.defers)-1]
		fr.defers = fr.defers[:len(fr.defers)-1]
		in.curDeferFrame = append(in.curDeferFrame, fr)
		in.call(d.fi, d.args, d.env, nil)
		in.curDeferFrame = in.curDeferFrame[:len(in.curDeferFrame)-1]
	}
}

func (in *Interp) get(fr *frame, o *operand) Value {
	if o.reg >= 0 {
		return fr.regs[o.reg]
	}
	return o.k
}

func deref(t types.Type) types.Type {
	if p, ok := t.Underlying().(*types.Pointer); ok {
		return p.Elem()
	}
	panic("deref of non-pointer " + t.String())
}

type binAux struct {
	l *Layout
}

type idxAux struct {
	isSlice  bool
	isString bool
	elem     *Layout
	arrLen   int
	idxL     *Layout
	fuse     bool
	loadOnly bool
}

type sliceAux struct {
	kind   uint8 // 0 slice, 1 string, 2 *array
	elem   *Layout
	arrLen int
	idxL   [3]*Layout
}

type callAux struct {
	builtin string
	static  *fnInfo
	invoke  *types.Func
	argL    []*Layout
	resL    *Layout
	sig     *types.Signature
}

func (in *Interp) exec(fr *frame, startBlock int) Value {
	fi := fr.fi
	bi := startBlock
	prev := -1
	for {
		cb := &fi.blocks[bi]
		in.Steps += int64(len(cb.instrs))
		if in.Steps > in.StepBudget {
			panic(&pathEnd{reason: "budget", detail: fi.name})
		}
		instrs := cb.instrs
		i := 0
		if cb.nphi > 0 {
			e := 0
			for k, p := range cb.preds {
				if p == prev {
					e = k
					break
				}
			}
			if cb.nphi == 1 {
				ci := &instrs[0]
				fr.regs[ci.dst] = in.get(fr, &ci.o[e])
			} else {
				var tmp [8]Value
				vals := tmp[:0]
				for k := 0; k < cb.nphi; k++ {
					vals = append(vals, in.get(fr, &instrs[k].o[e]))
				}
				for k := 0; k < cb.nphi; k++ {
					fr.regs[instrs[k].dst] = vals[k]
				}
			}
			i = cb.nphi
		}
		next := -1
		for ; i < len(instrs); i++ {
			ci := &instrs[i]
			in.cur = ci
			switch ci.op {
			case opBinOp:
				fr.regs[ci.dst] = in.doBinOp(fr, ci)
			case opUnOp:
				fr.regs[ci.dst] = in.doUnOp(fr, ci)
			case opIf:
				if in.branch(in.get(fr, &ci.o[0])) {
					next = cb.succs[0]
				} else {
					next = cb.succs[1]
				}
			case opJump:
				next = cb.succs[0]
			case opStore:
				st := ci.ins.(*ssa.Store)
				l, _ := ci.aux.(*Layout)
				if l == nil {
					l = in.lay.of(deref(st.Addr.Type()))
					ci.aux = l
				}
				in.store(in.get(fr, &ci.o[0]), l, in.get(fr, &ci.o[1]))
			case opFieldAddr:
				fa := ci.ins.(*ssa.FieldAddr)
				off, ok := ci.aux.(int)
				if !ok {
					l := in.lay.of(deref(fa.X.Type()))
					off = l.Fields[fa.Field]
					ci.aux = off
				}
				x := in.get(fr, &ci.o[0])
				if x.K != KPtr {
					in.rtPanic("invalid memory address or nil pointer dereference")
				}
				x.C += uint64(off)
				fr.regs[ci.dst] = x
			case opField:
				f := ci.ins.(*ssa.Field)
				l, _ := ci.aux.(*Layout)
				if l == nil {
					l = in.lay.of(f.X.Type())
					ci.aux = l
				}
				fr.regs[ci.dst] = in.aggField(in.get(fr, &ci.o[0]), l, f.Field)
			case opIndexAddr:
				fr.regs[ci.dst] = in.doIndexAddr(fr, ci)
			case opIndex:
				fr.regs[ci.dst] = in.doIndex(fr, ci)
			case opCall:
				v := in.doCall(fr, ci)
				fr.regs[ci.dst] = v
			case opReturn:
				switch len(ci.o) {
				case 0:
					return Value{}
				case 1:
					return in.get(fr, &ci.o[0])
				}
				t := make([]Value, len(ci.o))
				for k := range ci.o {
					t[k] = in.get(fr, &ci.o[k])
				}
				return Value{K: KTuple, R: t}
			case opExtract:
				fr.regs[ci.dst] = in.get(fr, &ci.o[0]).R.([]Value)[ci.ins.(*ssa.Extract).Index]
			case opAlloc:
				l, _ := ci.aux.(*Layout)
				if l == nil {
					l = in.lay.of(deref(ci.ins.(*ssa.Alloc).Type()))
					ci.aux = l
				}
				fr.regs[ci.dst] = Value{K: KPtr, R: in.newObj(l.zeroCells())}
			case opSlice:
				fr.regs[ci.dst] = in.doSlice(fr, ci)
			case opConvert:
				fr.regs[ci.dst] = in.doConvert(fr, ci)
			case opChangeType, opChangeInterface:
				fr.regs[ci.dst] = in.get(fr, &ci.o[0])
			case opMakeInterface:
				mi := ci.ins.(*ssa.MakeInterface)
				fr.regs[ci.dst] = Value{K: KIface, R: &Iface{T: mi.X.Type(), V: in.get(fr, &ci.o[0])}}
			case opTypeAssert:
				fr.regs[ci.dst] = in.doTypeAssert(fr, ci)
			case opMakeClosure:
				fn := ci.ins.(*ssa.MakeClosure).Fn.(*ssa.Function)
				env := make([]Value, len(ci.o)-1)
				for k := range env {
					env[k] = in.get(fr, &ci.o[k+1])
				}
				in.nextID++
				fr.regs[ci.dst] = Value{K: KFunc, R: &Closure{Fn: fn, Env: env, ID: in.nextID}}
			case opMakeSlice:
				ms := ci.ins.(*ssa.MakeSlice)
				l, _ := ci.aux.(*Layout)
				if l == nil {
					l = in.lay.of(ms.Type().Underlying().(*types.Slice).Elem())
					ci.aux = l
				}
				n := in.concretize(in.get(fr, &ci.o[0]), true)
				c := in.concretize(in.get(fr, &ci.o[1]), true)
				if n < 0 || n > 1<<28 {
					in.rtPanic("makeslice: len out of range")
				}
				if c < n || c > 1<<28 {
					in.rtPanic("makeslice: cap out of range")
				}
				fr.regs[ci.dst] = in.makeSlice(l, int(n), int(c))
			case opMakeMap:
				in.nextID++
				mt := ci.ins.(*ssa.MakeMap).Type().Underlying().(*types.Map)
				fr.regs[ci.dst] = Value{K: KMap, R: &MapObj{Idx: map[any]int{}, KT: mt.Key(), ID: in.nextID}}
			case opMapUpdate:
				in.mapUpdate(in.get(fr, &ci.o[0]), in.get(fr, &ci.o[1]), in.get(fr, &ci.o[2]))
			case opLookup:
				fr.regs[ci.dst] = in.doLookup(fr, ci)
			case opRange:
				fr.regs[ci.dst] = in.doRange(fr, ci)
			case opNext:
				fr.regs[ci.dst] = in.doNext(fr, ci)
			case opPanic:
				v := in.get(fr, &ci.o[0])
				panic(&goPanic{v: v, msg: in.panicString(v)})
			case opDefer:
				d := ci.ins.(*ssa.Defer)
				in.doDefer(fr, ci, &d.Call)
			case opRunDefers:
				in.runDefers(fr)
			case opPhi:
				panic("phi in body")
			default:
				in.unsupported(fmt.Sprintf("instruction %T in %s", ci.ins, fi.name))
			}
		}
		if next < 0 {
			panic(fmt.Sprintf("block %d of %s fell through", bi, fi.name))
		}
		prev, bi = bi, next
	}
}

func (in *Interp) panicString(v Value) string {
	if v.K == KIface {
		i := v.R.(*Iface)
		if i.V.K == KString {
			return concreteStr(i.V)
		}
		if i.V.K == KPtr {
			// error value: try errorString
			if o := i.V.Obj(); o != nil && len(o.Cells) > int(i.V.C) && o.Cells[i.V.C].K == KString {
				return concreteStr(o.Cells[i.V.C])
			}
		}
		return "panic(" + i.T.String() + ")"
	}
	return "panic"
}

func (in *Interp) makeSlice(el *Layout, n, c int) Value {
	cells := make([]Value, c*el.N)
	if len(el.Zero) == 1 {
		z := el.Zero[0]
		for i := range cells {
			cells[i] = z
		}
	} else {
		for i := 0; i < c; i++ {
			copy(cells[i*el.N:], el.Zero)
		}
	}
	return Value{K: KSlice, R: in.newObj(cells), N: int32(n), M: int32(c)}
}

func (in *Interp) doBinOp(fr *frame, ci *cinstr) Value {
	b := ci.ins.(*ssa.BinOp)
	l, _ := ci.aux.(*Layout)
	if l == nil {
		l = in.lay.of(b.X.Type())
		ci.aux = l
	}
	x, y := in.get(fr, &ci.o[0]), in.get(fr, &ci.o[1])
	switch l.Cat {
	case tInt:
		switch b.Op {
		case token.EQL, token.NEQ, token.LSS, token.LEQ, token.GTR, token.GEQ:
			return in.intCmp(b.Op, x, y, l.Signed)
		case token.QUO, token.REM:
			if y.T != nil {
				z := in.intCmp(token.EQL, y, intV(0, y.W), false)
				if in.branch(z) {
					in.rtPanic("integer divide by zero")
				}
			} else if y.C == 0 {
				in.rtPanic("integer divide by zero")
			}
			return in.intBin(b.Op, x, y, l.Signed)
		case token.SHL, token.SHR:
			yl := in.lay.of(b.Y.Type())
			if yl.Signed {
				neg := in.intCmp(token.LSS, y, intV(0, y.W), true)
				if in.branch(neg) {
					in.rtPanic("negative shift amount")
				}
			}
			return in.intBin(b.Op, x, y, l.Signed)
		}
		return in.intBin(b.Op, x, y, l.Signed)
	case tString:
		switch b.Op {
		case token.ADD:
			return strConcat(x, y)
		case token.EQL:
			return in.strEq(x, y)
		case token.NEQ:
			return in.notV(in.strEq(x, y))
		case token.LSS:
			return in.strLess(x, y)
		case token.GTR:
			return in.strLess(y, x)
		case token.LEQ:
			return in.notV(in.strLess(y, x))
		case token.GEQ:
			return in.notV(in.strLess(x, y))
		}
	case tFloat:
		return in.floatBin(b.Op, x, y)
	default:
		// x and y may have different static types when one is nil or an interface
		switch b.Op {
		case token.EQL:
			return in.eqMixed(x, y, l, in.lay.of(b.Y.Type()))
		case token.NEQ:
			return in.notV(in.eqMixed(x, y, l, in.lay.of(b.Y.Type())))
		}
	}
	in.unsupported(fmt.Sprintf("binop %s on %s", b.Op, l.T))
	return Value{}
}

func (in *Interp) eqMixed(x, y Value, lx, ly *Layout) Value {
	if lx.Cat == tIface || ly.Cat != tIface {
		return in.eqValues(x, y, lx)
	}
	return in.eqValues(x, y, ly)
}

func (in *Interp) floatBin(op token.Token, x, y Value) Value {
	fx, _ := x.R.(float64)
	fy, _ := y.R.(float64)
	switch op {
	case token.ADD:
		return Value{K: KFloat, R: fx + fy}
	case token.SUB:
		return Value{K: KFloat, R: fx - fy}
	case token.MUL:
		return Value{K: KFloat, R: fx * fy}
	case token.QUO:
		return Value{K: KFloat, R: fx / fy}
	case token.EQL:
		return boolV(fx == fy)
	case token.NEQ:
		return boolV(fx != fy)
	case token.LSS:
		return boolV(fx < fy)
	case token.LEQ:
		return boolV(fx <= fy)
	case token.GTR:
		return boolV(fx > fy)
	case token.GEQ:
		return boolV(fx >= fy)
	}
	in.unsupported("float op")
	return Value{}
}

func (in *Interp) doUnOp(fr *frame, ci *cinstr) Value {
	u := ci.ins.(*ssa.UnOp)
	x := in.get(fr, &ci.o[0])
	switch u.Op {
	case token.MUL:
		l, _ := ci.aux.(*Layout)
		if l == nil {
			l = in.lay.of(u.Type())
			ci.aux = l
		}
		if sp, ok := x.R.(*symPtr); ok {
			return in.loadSymPtr(sp)
		}
		v := in.load(x, l)
		if u.CommaOk {
			in.unsupported("commaok load")
		}
		return v
	case token.NOT:
		return in.notV(x)
	case token.SUB:
		if x.K == KFloat {
			f, _ := x.R.(float64)
			return Value{K: KFloat, R: -f}
		}
		var t *Term
		if x.T != nil {
			t = in.TT.Neg(x.T)
		}
		return mkInt(-x.C, x.W, t)
	case token.XOR:
		var t *Term
		if x.T != nil {
			t = in.TT.BvNot(x.T)
		}
		return mkInt(^x.C, x.W, t)
	}
	in.unsupported("unop " + u.Op.String())
	return Value{}
}

// symPtr is the result of an IndexAddr with a symbolic index into a table of
// concrete scalars whose only use is a load.
type symPtr struct {
	o    *Obj
	base int
	n    int
	idx  Value
}

func (in *Interp) loadSymPtr(sp *symPtr) Value {
	return in.tableSelect(sp.o.Cells[sp.base:sp.base+sp.n], sp.idx)
}

// tableSelect builds ite(idx <= r1, v1, ite(idx <= r2, v2, ...)) over runs of
// equal concrete values. idx is known (by an earlier bounds decision) to be in range.
func (in *Interp) tableSelect(cells []Value, idx Value) Value {
	cur := cells[idx.C]
	n := len(cells)
	w := idx.W
	// runs
	t := in.termOf(cells[n-1])
	for i := n - 2; i >= 0; i-- {
		if cells[i].C == cells[i+1].C {
			continue
		}
		t = in.TT.Ite(in.TT.Cmp(OpUle, idx.T, in.TT.Const(uint64(i), w)), in.termOf(cells[i]), t)
	}
	r := cur
	if t.Op != OpConst {
		r.T = t
	}
	return r
}

// classFork handles a load from table[idx] with symbolic idx when the elements are
// not scalars: the indices are partitioned into classes of identical elements and
// the path branches on the class of idx (not on its value). Returns false if the
// table holds symbolic cells (caller falls back to value concretisation).
func (in *Interp) classFork(cells []Value, esz, n int, idx Value) bool {
	for i := range cells {
		if cells[i].T != nil {
			return false
		}
	}
	same := func(a, b int) bool {
		for k := 0; k < esz; k++ {
			x, y := &cells[a*esz+k], &cells[b*esz+k]
			if x.K != y.K || x.C != y.C || x.N != y.N || x.M != y.M || x.W != y.W {
				return false
			}
			if x.R != y.R {
				xs, ok1 := x.R.(string)
				ys, ok2 := y.R.(string)
				if !(ok1 && ok2 && xs == ys) {
					return false
				}
			}
		}
		return true
	}
	cls := make([]int, n)
	var reps []int
	for i := 0; i < n; i++ {
		cls[i] = -1
		for c, r := range reps {
			if same(i, r) {
				cls[i] = c
				break
			}
		}
		if cls[i] < 0 {
			cls[i] = len(reps)
			reps = append(reps, i)
			if len(reps) > 64 {
				return false
			}
		}
	}
	if len(reps) == n {
		return false
	}
	// largest class last
	size := make([]int, len(reps))
	for _, c := range cls {
		size[c]++
	}
	big := 0
	for c := range size {
		if size[c] > size[big] {
			big = c
		}
	}
	mine := cls[idx.C]
	w := idx.W
	for c := range reps {
		if c == big {
			continue
		}
		// term: idx in class c (disjunction over maximal runs)
		t := in.TT.Bool(false)
		for i := 0; i < n; {
			if cls[i] != c {
				i++
				continue
			}
			j := i
			for j+1 < n && cls[j+1] == c {
				j++
			}
			var r *Term
			if i == j {
				r = in.TT.Cmp(OpEq, idx.T, in.TT.Const(uint64(i), w))
			} else {
				r = in.TT.And(in.TT.Cmp(OpUle, in.TT.Const(uint64(i), w), idx.T), in.TT.Cmp(OpUle, idx.T, in.TT.Const(uint64(j), w)))
			}
			t = in.TT.Or(t, r)
			i = j + 1
		}
		if t.Op == OpConst {
			continue
		}
		in.addDecision(t, c == mine, DIf)
		if c == mine {
			return true
		}
	}
	return true
}

func allConcreteScalars(cells []Value) bool {
	for i := range cells {
		if cells[i].T != nil || (cells[i].K != KInt && cells[i].K != KBool) {
			return false
		}
	}
	return true
}

func (in *Interp) idxAuxOf(ci *cinstr, xt types.Type, it types.Type) *idxAux {
	if a, ok := ci.aux.(*idxAux); ok {
		return a
	}
	a := &idxAux{idxL: in.lay.of(it)}
	switch u := xt.Underlying().(type) {
	case *types.Slice:
		a.isSlice = true
		a.elem = in.lay.of(u.Elem())
	case *types.Pointer:
		arr := u.Elem().Underlying().(*types.Array)
		a.elem = in.lay.of(arr.Elem())
		a.arrLen = int(arr.Len())
	case *types.Array:
		a.elem = in.lay.of(u.Elem())
		a.arrLen = int(u.Len())
	case *types.Basic:
		a.isString = true
	default:
		panic("idxAux " + xt.String())
	}
	if ia, ok := ci.ins.(*ssa.IndexAddr); ok {
		refs := ia.Referrers()
		if refs != nil && len(*refs) == 1 {
			if u, ok := (*refs)[0].(*ssa.UnOp); ok && u.Op == token.MUL {
				a.loadOnly = true
				if a.elem.Cat == tInt || a.elem.Cat == tBool {
					a.fuse = true
				}
			}
		}
	}
	ci.aux = a
	return a
}

// boundsCheck returns the concrete index after checking 0 <= idx < n; for a
// symbolic idx the caller decides whether to keep it symbolic.
func (in *Interp) boundsDecision(idx Value, signed bool, n int) {
	// decision: idx <u n  (as unsigned, covers negative)
	ok := idx.C < uint64(n)
	if signed && sext64(idx.C, idx.W) < 0 {
		ok = false
	}
	if idx.T != nil {
		var t64 *Term
		if signed {
			t64 = in.TT.Sext(idx.T, 64)
		} else {
			t64 = in.TT.Zext(idx.T, 64)
		}
		t := in.TT.Cmp(OpUlt, t64, in.TT.Const(uint64(n), 64))
		if t.Op != OpConst {
			in.addDecision(t, ok, DBounds)
		}
	}
	if !ok {
		in.rtPanic(fmt.Sprintf("index out of range [%d] with length %d", sext64(idx.C, idx.W), n))
	}
}

func (in *Interp) doIndexAddr(fr *frame, ci *cinstr) Value {
	ia := ci.ins.(*ssa.IndexAddr)
	a := in.idxAuxOf(ci, ia.X.Type(), ia.Index.Type())
	x, idx := in.get(fr, &ci.o[0]), in.get(fr, &ci.o[1])
	var o *Obj
	var base, n int
	if a.isSlice {
		if x.K == KNil {
			n = 0
		} else {
			o, base, n = x.R.(*Obj), int(x.C), int(x.N)
		}
	} else {
		if x.K != KPtr {
			in.rtPanic("invalid memory address or nil pointer dereference")
		}
		o, base, n = x.R.(*Obj), int(x.C), a.arrLen
	}
	if idx.T != nil {
		in.boundsDecision(idx, a.idxL.Signed, n)
		if a.fuse && a.elem.N == 1 && n > 1 && allConcreteScalars(o.Cells[base:base+n]) {
			return Value{K: KPtr, R: &symPtr{o: o, base: base, n: n, idx: idx}}
		}
		if a.loadOnly && a.elem.N >= 1 && n > 1 && n <= 4096 {
			if in.classFork(o.Cells[base:base+n*a.elem.N], a.elem.N, n, idx) {
				return Value{K: KPtr, R: o, C: uint64(base + int(idx.C)*a.elem.N)}
			}
		}
		i := in.concretize(idx, a.idxL.Signed)
		return Value{K: KPtr, R: o, C: uint64(base + int(i)*a.elem.N)}
	}
	i := int64(idx.C)
	if a.idxL.Signed {
		i = sext64(idx.C, idx.W)
	}
	if i < 0 || i >= int64(n) {
		in.rtPanic(fmt.Sprintf("index out of range [%d] with length %d", i, n))
	}
	return Value{K: KPtr, R: o, C: uint64(base + int(i)*a.elem.N)}
}

func (in *Interp) doIndex(fr *frame, ci *cinstr) Value {
	ix := ci.ins.(*ssa.Index)
	a := in.idxAuxOf(ci, ix.X.Type(), ix.Index.Type())
	x, idx := in.get(fr, &ci.o[0]), in.get(fr, &ci.o[1])
	if a.isString {
		return in.stringIndex(x, idx, a.idxL.Signed)
	}
	// array value
	o := x.R.(*Obj)
	base, n := int(x.C), a.arrLen
	if idx.T != nil {
		in.boundsDecision(idx, a.idxL.Signed, n)
		if a.elem.N == 1 && n > 1 && allConcreteScalars(o.Cells[base:base+n]) {
			return in.tableSelect(o.Cells[base:base+n], idx)
		}
		i := in.concretize(idx, a.idxL.Signed)
		idx = intV(uint64(i), idx.W)
	}
	i := sext64(idx.C, idx.W)
	if !a.idxL.Signed {
		i = int64(idx.C)
	}
	if i < 0 || i >= int64(n) {
		in.rtPanic(fmt.Sprintf("index out of range [%d] with length %d", i, n))
	}
	off := base + int(i)*a.elem.N
	if a.elem.isAgg() {
		return Value{K: KAgg, R: o, C: uint64(off)}
	}
	return o.Cells[off]
}

func (in *Interp) stringIndex(x, idx Value, signed bool) Value {
	n := strLen(x)
	if idx.T != nil {
		in.boundsDecision(idx, signed, n)
		if s, ok := x.R.(string); ok && n > 1 {
			cells := make([]Value, n)
			for i := 0; i < n; i++ {
				cells[i] = Value{K: KInt, W: 8, C: uint64(s[i])}
			}
			return in.tableSelect(cells, idx)
		}
		i := in.concretize(idx, signed)
		return strByte(x, int(i))
	}
	i := int64(idx.C)
	if signed {
		i = sext64(idx.C, idx.W)
	}
	if i < 0 || i >= int64(n) {
		in.rtPanic(fmt.Sprintf("index out of range [%d] with length %d", i, n))
	}
	return strByte(x, int(i))
}

func (in *Interp) doSlice(fr *frame, ci *cinstr) Value {
	s := ci.ins.(*ssa.Slice)
	a, _ := ci.aux.(*sliceAux)
	if a == nil {
		a = &sliceAux{}
		switch u := s.X.Type().Underlying().(type) {
		case *types.Slice:
			a.kind = 0
			a.elem = in.lay.of(u.Elem())
		case *types.Basic:
			a.kind = 1
		case *types.Pointer:
			arr := u.Elem().Underlying().(*types.Array)
			a.kind = 2
			a.elem = in.lay.of(arr.Elem())
			a.arrLen = int(arr.Len())
		}
		for k, v := range []ssa.Value{s.Low, s.High, s.Max} {
			if v != nil {
				a.idxL[k] = in.lay.of(v.Type())
			}
		}
		ci.aux = a
	}
	x := in.get(fr, &ci.o[0])
	var length, capacity int
	switch a.kind {
	case 0:
		if x.K != KNil {
			length, capacity = int(x.N), int(x.M)
		}
	case 1:
		length = strLen(x)
		capacity = length
	case 2:
		if x.K != KPtr {
			in.rtPanic("invalid memory address or nil pointer dereference")
		}
		length, capacity = a.arrLen, a.arrLen
	}
	lo, hi, max := 0, length, capacity
	if ci.o[1].reg != -2 {
		lo = int(in.concretize(in.get(fr, &ci.o[1]), a.idxL[0].Signed))
	}
	if ci.o[2].reg != -2 {
		hi = int(in.concretize(in.get(fr, &ci.o[2]), a.idxL[1].Signed))
	}
	if ci.o[3].reg != -2 {
		max = int(in.concretize(in.get(fr, &ci.o[3]), a.idxL[2].Signed))
	}
	if a.kind == 1 {
		if lo < 0 || hi < lo || hi > length {
			in.rtPanic(fmt.Sprintf("slice bounds out of range [%d:%d] with length %d", lo, hi, length))
		}
		return strSlice(x, lo, hi)
	}
	if lo < 0 || hi < lo || max < hi || max > capacity {
		in.rtPanic(fmt.Sprintf("slice bounds out of range [%d:%d:%d] with capacity %d", lo, hi, max, capacity))
	}
	if x.K == KNil {
		return Value{}
	}
	return Value{K: KSlice, R: x.R, C: x.C + uint64(lo*a.elem.N), N: int32(hi - lo), M: int32(max - lo)}
}

func (in *Interp) doConvert(fr *frame, ci *cinstr) Value {
	cv := ci.ins.(*ssa.Convert)
	x := in.get(fr, &ci.o[0])
	type convAux struct{ from, to *Layout }
	a, _ := ci.aux.(*convAux)
	if a == nil {
		a = &convAux{in.lay.of(cv.X.Type()), in.lay.of(cv.Type())}
		ci.aux = a
	}
	from, to := a.from, a.to
	switch {
	case from.Cat == tInt && to.Cat == tInt:
		return in.convertInt(x, from.Signed, to.W)
	case from.Cat == tString && to.Cat == tSlice:
		el := in.lay.of(to.T.Underlying().(*types.Slice).Elem())
		if el.W == 8 {
			cells := strCells(x)
			cp := make([]Value, len(cells))
			copy(cp, cells)
			return Value{K: KSlice, R: in.newObj(cp), N: int32(len(cp)), M: int32(len(cp))}
		}
		// []rune
		if isSymStr(x) {
			in.unsupported("[]rune(symbolic string)")
		}
		rs := []rune(concreteStr(x))
		cells := make([]Value, len(rs))
		for i, r := range rs {
			cells[i] = intV(uint64(r), 32)
		}
		return Value{K: KSlice, R: in.newObj(cells), N: int32(len(rs)), M: int32(len(rs))}
	case from.Cat == tSlice && to.Cat == tString:
		el := in.lay.of(from.T.Underlying().(*types.Slice).Elem())
		if x.K == KNil {
			return strV("")
		}
		o := x.R.(*Obj)
		cells := o.Cells[int(x.C) : int(x.C)+int(x.N)]
		if el.W == 8 {
			return strFromCells(cells)
		}
		var sb strings.Builder
		for _, c := range cells {
			if c.T != nil {
				in.unsupported("string([]rune) with symbolic rune")
			}
			sb.WriteString(runeToString(rune(sext64(c.C, 32))))
		}
		return strV(sb.String())
	case from.Cat == tInt && to.Cat == tString:
		if x.T != nil {
			// encode via the real utf8.AppendRune
			r := in.convertInt(x, from.Signed, 32)
			f := in.Prog.ImportedPackage("unicode/utf8").Func("AppendRune")
			res := in.call(in.info(f), []Value{{}, r}, nil, ci)
			o := res.R.(*Obj)
			return strFromCells(o.Cells[int(res.C) : int(res.C)+int(res.N)])
		}
		var r rune
		if from.Signed {
			v := sext64(x.C, x.W)
			if v < 0 || v > utf8.MaxRune {
				r = utf8.RuneError
			} else {
				r = rune(v)
			}
		} else if x.C > utf8.MaxRune {
			r = utf8.RuneError
		} else {
			r = rune(x.C)
		}
		return strV(runeToString(r))
	case to.Cat == tUnsafe || from.Cat == tUnsafe:
		if to.Cat == tInt || from.Cat == tInt {
			in.unsupported("uintptr <-> unsafe.Pointer conversion")
		}
		return x
	case from.Cat == tInt && to.Cat == tFloat:
		if x.T != nil {
			in.unsupported("symbolic int to float")
		}
		if from.Signed {
			return Value{K: KFloat, R: float64(sext64(x.C, x.W))}
		}
		return Value{K: KFloat, R: float64(x.C)}
	case from.Cat == tFloat && to.Cat == tInt:
		f, _ := x.R.(float64)
		if to.Signed {
			return intV(uint64(int64(f)), to.W)
		}
		return intV(uint64(f), to.W)
	case from.Cat == tFloat && to.Cat == tFloat:
		return x
	case from.Cat == to.Cat:
		return x
	}
	in.unsupported(fmt.Sprintf("convert %s -> %s", from.T, to.T))
	return Value{}
}

func (in *Interp) implements(dyn types.Type, iface types.Type) bool {
	k := [2]types.Type{dyn, iface}
	if r, ok := in.implCache[k]; ok {
		return r
	}
	it := iface.Underlying().(*types.Interface)
	r := types.Implements(dyn, it)
	in.implCache[k] = r
	return r
}

func (in *Interp) doTypeAssert(fr *frame, ci *cinstr) Value {
	ta := ci.ins.(*ssa.TypeAssert)
	x := in.get(fr, &ci.o[0])
	ok := false
	var res Value
	if x.K == KIface {
		ifc := x.R.(*Iface)
		if types.IsInterface(ta.AssertedType) {
			if in.implements(ifc.T, ta.AssertedType) {
				ok, res = true, x
			}
		} else if types.Identical(ifc.T, ta.AssertedType) {
			ok, res = true, ifc.V
		}
	}
	if !ok {
		if !ta.CommaOk {
			panic(&goPanic{msg: "interface conversion: type assertion to " + ta.AssertedType.String() + " failed", rt: true})
		}
		res = in.zeroValue(in.lay.of(ta.AssertedType))
	}
	if ta.CommaOk {
		return Value{K: KTuple, R: []Value{res, boolV(ok)}}
	}
	return res
}

func (in *Interp) lookupMethod(dyn types.Type, m *types.Func) *fnInfo {
	k := methodKey{dyn, m.Name(), m.Pkg()}
	if fi, ok := in.methodCache[k]; ok {
		return fi
	}
	f := in.Prog.LookupMethod(dyn, m.Pkg(), m.Name())
	if f == nil {
		in.unsupported("method not found: " + dyn.String() + "." + m.Name())
	}
	fi := in.info(f)
	in.methodCache[k] = fi
	return fi
}

func (in *Interp) doDefer(fr *frame, ci *cinstr, call *ssa.CallCommon) {
	sp := in.argSP
	defer func() { in.argSP = sp }()
	fi, args, env := in.resolveCall(fr, ci, call)
	if fi == nil {
		// builtin deferred (e.g. recover/close): evaluate now lazily unsupported
		in.unsupported("defer of builtin")
	}
	fr.defers = append(fr.defers, deferred{fi: fi, args: append([]Value(nil), args...), env: env})
}

// resolveCall evaluates callee and arguments. For builtins fi==nil.
func (in *Interp) resolveCall(fr *frame, ci *cinstr, call *ssa.CallCommon) (*fnInfo, []Value, []Value) {
	a, _ := ci.aux.(*callAux)
	if a == nil {
		a = &callAux{}
		if call.IsInvoke() {
			a.invoke = call.Method
		} else if b, ok := call.Value.(*ssa.Builtin); ok {
			a.builtin = b.Name()
		} else if f, ok := call.Value.(*ssa.Function); ok {
			a.static = in.info(f)
		}
		ci.aux = a
	}
	// operands: o[0] = Value, o[1:] = Args (possibly followed by extra operands for Defer)
	nargs := len(call.Args)
	if a.invoke != nil {
		recv := in.get(fr, &ci.o[0])
		if recv.K != KIface {
			in.rtPanic("invalid memory address or nil pointer dereference")
		}
		ifc := recv.R.(*Iface)
		fi := in.lookupMethod(ifc.T, a.invoke)
		args := in.allocArgs(nargs + 1)
		args[0] = ifc.V
		for k := 0; k < nargs; k++ {
			args[k+1] = in.get(fr, &ci.o[k+1])
		}
		return fi, args, nil
	}
	args := in.allocArgs(nargs)
	for k := 0; k < nargs; k++ {
		args[k] = in.get(fr, &ci.o[k+1])
	}
	if a.builtin != "" {
		return nil, args, nil
	}
	if a.static != nil {
		return a.static, args, nil
	}
	fv := in.get(fr, &ci.o[0])
	if fv.K != KFunc {
		in.rtPanic("invalid memory address or nil pointer dereference")
	}
	cl := fv.R.(*Closure)
	return in.info(cl.Fn), args, cl.Env
}

func (in *Interp) doCall(fr *frame, ci *cinstr) Value {
	c := ci.ins.(*ssa.Call)
	sp := in.argSP
	fi, args, env := in.resolveCall(fr, ci, &c.Call)
	var r Value
	if fi == nil {
		r = in.builtin(fr, ci, ci.aux.(*callAux).builtin, args, &c.Call)
	} else {
		r = in.call(fi, args, env, ci)
	}
	in.argSP = sp
	return r
}

// allocArgs returns a scratch slice for call arguments (released by the caller
// resetting argSP).
func (in *Interp) allocArgs(n int) []Value {
	if in.argSP+n > len(in.argStack) {
		ns := make([]Value, (in.argSP+n)*2+256)
		copy(ns, in.argStack[:in.argSP])
		in.argStack = ns
	}
	a := in.argStack[in.argSP : in.argSP+n : in.argSP+n]
	in.argSP += n
	return a
}

// CallFunc calls a package-level function by SSA function (used by drivers).
func (in *Interp) CallFunc(f *ssa.Function, args []Value) Value {
	return in.call(in.info(f), args, nil, nil)
}
