package symgo

import (
	"bufio"
	"fmt"
	"io"
	"os"
	"os/exec"
	"sort"
	"strconv"
	"strings"
	"sync"
	"time"
)

// Lit is a Bool term with polarity.
type Lit struct {
	T   *Term
	Neg bool
}

type SatResult int

const (
	Unsat SatResult = iota
	Sat
	Unknown
)

func (r SatResult) String() string { return [...]string{"unsat", "sat", "unknown"}[r] }

// Solver is one persistent SMT solver process fed SMT-LIB2 over a pipe.
type Solver struct {
	Name      string
	argv      []string
	cmd       *exec.Cmd
	in        io.WriteCloser
	out       *bufio.Reader
	gen       uint32
	declared  map[string]bool
	ndefs     int
	Dur       time.Duration
	Queries   int
	Errors    int
	TimeoutMs int
	lib       *z3lib
	nlib      int
}

// DumpQueries, if set, receives the text of every query.
var DumpQueries func(q string)

var solverGen uint32 = 1
var solverGenMu sync.Mutex

func solverArgv(name string) []string {
	switch name {
	case "z3":
		return []string{"/usr/bin/z3", "-in"}
	case "z3-new":
		return []string{"z3-new", "-in"}
	case "cvc5":
		return []string{"cvc5", "--incremental", "--lang=smt2", "--produce-models"}
	}
	panic("unknown solver " + name)
}

func NewSolver(name string, timeoutMs int) *Solver {
	if name == "z3lib" {
		s := &Solver{Name: name, TimeoutMs: timeoutMs}
		s.start()
		return s
	}
	s := &Solver{Name: name, argv: solverArgv(name), TimeoutMs: timeoutMs}
	s.start()
	return s
}

func (s *Solver) start() {
	if s.Name == "z3lib" {
		s.lib = newZ3lib()
		s.declared = map[string]bool{}
		solverGenMu.Lock()
		solverGen++
		s.gen = solverGen
		solverGenMu.Unlock()
		hdr := "(set-option :produce-models true)\n"
		if s.TimeoutMs > 0 {
			hdr += fmt.Sprintf("(set-option :timeout %d)\n", s.TimeoutMs)
		}
		s.lib.eval(hdr)
		return
	}
	c := exec.Command(s.argv[0], s.argv[1:]...)
	in, err := c.StdinPipe()
	if err != nil {
		panic(err)
	}
	out, err := c.StdoutPipe()
	if err != nil {
		panic(err)
	}
	c.Stderr = os.Stderr
	if err := c.Start(); err != nil {
		panic(fmt.Sprintf("cannot start solver %v: %v", s.argv, err))
	}
	s.cmd, s.in, s.out = c, in, bufio.NewReaderSize(out, 1<<16)
	s.declared = map[string]bool{}
	s.ndefs = 0
	// gen must be unique per (solver process); terms remember the gen in which
	// they were defined.
	solverGenMu.Lock()
	solverGen++
	s.gen = solverGen
	solverGenMu.Unlock()
	var sb strings.Builder
	if s.Name == "cvc5" {
		sb.WriteString("(set-logic QF_BV)\n")
		if s.TimeoutMs > 0 {
			fmt.Fprintf(&sb, "(set-option :tlimit-per %d)\n", s.TimeoutMs)
		}
	} else {
		sb.WriteString("(set-option :produce-models true)\n")
		if s.TimeoutMs > 0 {
			fmt.Fprintf(&sb, "(set-option :timeout %d)\n", s.TimeoutMs)
		}
	}
	io.WriteString(s.in, sb.String())
}

func (s *Solver) Close() {
	if s.lib != nil {
		s.lib.close()
		s.lib = nil
	}
	if s.cmd != nil {
		s.in.Close()
		s.cmd.Process.Kill()
		s.cmd.Wait()
		s.cmd = nil
	}
}

func (s *Solver) Restart() {
	s.Close()
	s.start()
}

func (s *Solver) NDefs() int { return s.ndefs }

// declareVars emits declare-const for variables not yet known to the session.
func (s *Solver) declareVars(sb *strings.Builder, vt map[uint32]*Term) {
	for _, t := range vt {
		n := t.ref()
		if !s.declared[n] {
			s.declared[n] = true
			sb.WriteString("(declare-const " + n + " " + sortStr(t.W) + ")\n")
		}
	}
}

// conjText renders the conjunction of lits as one self-contained expression;
// subterms used more than once are let-bound (in dependency order).
func conjText(lits []Lit) string {
	refs := map[*Term]int{}
	var order []*Term
	var walk func(t *Term)
	walk = func(t *Term) {
		if t == nil || t.Op == OpVar || t.Op == OpConst {
			return
		}
		refs[t]++
		if refs[t] > 1 {
			return
		}
		walk(t.A)
		walk(t.B)
		walk(t.C)
		order = append(order, t)
	}
	for _, l := range lits {
		walk(l.T)
	}
	named := map[*Term]string{}
	var sb strings.Builder
	var expr func(t *Term)
	expr = func(t *Term) {
		if t.Op == OpVar || t.Op == OpConst {
			sb.WriteString(t.ref())
			return
		}
		if n, ok := named[t]; ok {
			sb.WriteString(n)
			return
		}
		switch t.Op {
		case OpZext:
			sb.WriteString("((_ zero_extend ")
			sb.WriteString(strconv.Itoa(int(t.W - t.A.W)))
			sb.WriteString(") ")
			expr(t.A)
			sb.WriteByte(')')
			return
		case OpSext:
			sb.WriteString("((_ sign_extend ")
			sb.WriteString(strconv.Itoa(int(t.W - t.A.W)))
			sb.WriteString(") ")
			expr(t.A)
			sb.WriteByte(')')
			return
		case OpTrunc:
			sb.WriteString("((_ extract ")
			sb.WriteString(strconv.Itoa(int(t.W) - 1))
			sb.WriteString(" 0) ")
			expr(t.A)
			sb.WriteByte(')')
			return
		}
		sb.WriteByte('(')
		sb.WriteString(opSMT[t.Op])
		sb.WriteByte(' ')
		expr(t.A)
		if t.B != nil {
			sb.WriteByte(' ')
			expr(t.B)
		}
		if t.C != nil {
			sb.WriteByte(' ')
			expr(t.C)
		}
		sb.WriteByte(')')
	}
	nlet := 0
	for _, t := range order {
		if refs[t] > 1 {
			n := "s" + strconv.Itoa(nlet)
			nlet++
			sb.WriteString("(let ((" + n + " ")
			expr(t)
			sb.WriteString(")) ")
			named[t] = n
		}
	}
	lit := func(l Lit) {
		if l.Neg {
			sb.WriteString("(not ")
			expr(l.T)
			sb.WriteByte(')')
		} else {
			expr(l.T)
		}
	}
	if len(lits) == 1 {
		lit(lits[0])
	} else {
		sb.WriteString("(and")
		for _, l := range lits {
			sb.WriteByte(' ')
			lit(l)
		}
		sb.WriteString(")")
	}
	for i := 0; i < nlet; i++ {
		sb.WriteString(")")
	}
	return sb.String()
}

func litRef(l Lit) string {
	if l.Neg {
		return "(not " + l.T.ref() + ")"
	}
	return l.T.ref()
}

// Check decides the conjunction of lits. On Sat, model holds values for all
// variables occurring in lits.
func (s *Solver) Check(lits []Lit) (SatResult, map[uint32]uint64) {
	t0 := time.Now()
	defer func() { s.Dur += time.Since(t0) }()
	s.Queries++
	var sb strings.Builder
	var vs []uint32
	varTerm := map[uint32]*Term{}
	for _, l := range lits {
		vs = mergeVars(vs, l.T.Vars())
	}
	if len(vs) > 0 {
		collectVarTerms(lits, varTerm)
	}
	s.declareVars(&sb, varTerm)
	sb.WriteString("(push 1)\n(assert ")
	sb.WriteString(conjText(lits))
	sb.WriteString(")\n(check-sat)\n")
	if DumpQueries != nil {
		DumpQueries(sb.String())
	}
	if s.lib != nil {
		return s.checkLib(&sb, vs, varTerm)
	}
	if _, err := io.WriteString(s.in, sb.String()); err != nil {
		s.Errors++
		s.Restart()
		return Unknown, nil
	}
	line, err := s.readLine()
	if err != nil {
		s.Errors++
		s.Restart()
		return Unknown, nil
	}
	var res SatResult
	switch line {
	case "sat":
		res = Sat
	case "unsat":
		res = Unsat
	case "unknown", "timeout":
		res = Unknown
	default:
		// (error ...) or anything unexpected: inconclusive; restart to resync.
		fmt.Fprintf(os.Stderr, "solver %s: unexpected output %q\n", s.Name, line)
		s.Errors++
		s.Restart()
		return Unknown, nil
	}
	var model map[uint32]uint64
	if res == Sat && len(vs) > 0 {
		names := make([]string, len(vs))
		for i, v := range vs {
			names[i] = varTerm[v].ref()
		}
		io.WriteString(s.in, "(get-value ("+strings.Join(names, " ")+"))\n")
		txt, err := s.readSexp()
		if err != nil || strings.Contains(txt, "(error") {
			fmt.Fprintf(os.Stderr, "solver %s: get-value failed: %q %v\n", s.Name, txt, err)
			s.Errors++
			s.Restart()
			return Unknown, nil
		}
		model = make(map[uint32]uint64, len(vs))
		for i, n := range names {
			k := strings.Index(txt, "("+n+" ")
			if k < 0 {
				s.Errors++
				s.Restart()
				return Unknown, nil
			}
			rest := txt[k+len(n)+2:]
			j := strings.IndexByte(rest, ')')
			lit := strings.TrimSpace(rest[:j])
			var v uint64
			switch {
			case strings.HasPrefix(lit, "#x"):
				v, _ = strconv.ParseUint(lit[2:], 16, 64)
			case strings.HasPrefix(lit, "#b"):
				v, _ = strconv.ParseUint(lit[2:], 2, 64)
			case strings.HasPrefix(lit, "(_ bv"):
				f := strings.Fields(lit[5:])
				v, _ = strconv.ParseUint(f[0], 10, 64)
			case lit == "true":
				v = 1
			case lit == "false":
				v = 0
			default:
				fmt.Fprintf(os.Stderr, "solver %s: model literal %q\n", s.Name, lit)
				s.Errors++
				s.Restart()
				return Unknown, nil
			}
			model[vs[i]] = v
		}
	}
	io.WriteString(s.in, "(pop 1)\n")
	return res, model
}

func (s *Solver) checkLib(sb *strings.Builder, vs []uint32, varTerm map[uint32]*Term) (SatResult, map[uint32]uint64) {
	s.nlib++
	if s.nlib%20000 == 0 {
		// keep the context small: declarations are re-emitted after a restart
		defer s.Restart()
	}
	names := make([]string, len(vs))
	if len(vs) > 0 {
		for i, v := range vs {
			names[i] = varTerm[v].ref()
		}
	}
	out := strings.TrimSpace(s.lib.eval(sb.String()))
	var res SatResult
	switch out {
	case "sat":
		res = Sat
	case "unsat":
		res = Unsat
	case "unknown", "timeout":
		res = Unknown
	default:
		fmt.Fprintf(os.Stderr, "solver z3lib: unexpected output %q\n", out)
		s.Errors++
		s.Restart()
		return Unknown, nil
	}
	var model map[uint32]uint64
	if res == Sat && len(vs) > 0 {
		txt := s.lib.eval("(get-value (" + strings.Join(names, " ") + "))\n")
		if strings.Contains(txt, "(error") {
			s.Errors++
			s.Restart()
			return Unknown, nil
		}
		model = make(map[uint32]uint64, len(vs))
		for i, n := range names {
			v, ok := parseModelValue(txt, n)
			if !ok {
				s.Errors++
				s.Restart()
				return Unknown, nil
			}
			model[vs[i]] = v
		}
	}
	s.lib.eval("(pop 1)\n")
	return res, model
}

func parseModelValue(txt, n string) (uint64, bool) {
	k := strings.Index(txt, "("+n+" ")
	if k < 0 {
		return 0, false
	}
	rest := txt[k+len(n)+2:]
	j := strings.IndexByte(rest, ')')
	lit := strings.TrimSpace(rest[:j])
	switch {
	case strings.HasPrefix(lit, "#x"):
		v, err := strconv.ParseUint(lit[2:], 16, 64)
		return v, err == nil
	case strings.HasPrefix(lit, "#b"):
		v, err := strconv.ParseUint(lit[2:], 2, 64)
		return v, err == nil
	case strings.HasPrefix(lit, "(_ bv"):
		f := strings.Fields(lit[5:])
		v, err := strconv.ParseUint(f[0], 10, 64)
		return v, err == nil
	case lit == "true":
		return 1, true
	case lit == "false":
		return 0, true
	}
	return 0, false
}

func collectVarTerms(lits []Lit, out map[uint32]*Term) {
	seen := map[*Term]bool{}
	var walk func(t *Term)
	walk = func(t *Term) {
		if t == nil || seen[t] {
			return
		}
		seen[t] = true
		if t.Op == OpVar {
			out[uint32(t.V)] = t
			return
		}
		if t.Op == OpConst {
			return
		}
		walk(t.A)
		walk(t.B)
		walk(t.C)
	}
	for _, l := range lits {
		walk(l.T)
	}
}

func (s *Solver) readLine() (string, error) {
	for {
		line, err := s.out.ReadString('\n')
		if err != nil {
			return "", err
		}
		line = strings.TrimSpace(line)
		if line == "" {
			continue
		}
		return line, nil
	}
}

func (s *Solver) readSexp() (string, error) {
	depth := 0
	var buf strings.Builder
	started := false
	for {
		b, err := s.out.ReadByte()
		if err != nil {
			return buf.String(), err
		}
		if !started && (b == ' ' || b == '\n' || b == '\r' || b == '\t') {
			continue
		}
		started = true
		buf.WriteByte(b)
		if b == '(' {
			depth++
		} else if b == ')' {
			depth--
			if depth == 0 {
				return buf.String(), nil
			}
		}
	}
}

// Script renders lits as a standalone SMT-LIB2 script (for cross-checking with
// another solver in one-shot mode).
func Script(lits []Lit) string {
	var sb strings.Builder
	vt := map[uint32]*Term{}
	collectVarTerms(lits, vt)
	var ids []int
	for k := range vt {
		ids = append(ids, int(k))
	}
	sort.Ints(ids)
	for _, k := range ids {
		t := vt[uint32(k)]
		sb.WriteString("(declare-const " + t.ref() + " " + sortStr(t.W) + ")\n")
	}
	sb.WriteString("(assert " + conjText(lits) + ")\n(check-sat)\n")
	return sb.String()
}

// OneShot runs a standalone script on the named solver.
func OneShot(name string, script string, timeout time.Duration) SatResult {
	argv := solverArgv(name)
	if name == "cvc5" {
		argv = []string{"cvc5", "--lang=smt2"}
		script = "(set-logic QF_BV)\n" + script
	}
	c := exec.Command(argv[0], argv[1:]...)
	c.Stdin = strings.NewReader(script)
	done := make(chan struct{})
	var out []byte
	go func() {
		out, _ = c.Output()
		close(done)
	}()
	select {
	case <-done:
	case <-time.After(timeout):
		if c.Process != nil {
			c.Process.Kill()
		}
		<-done
		return Unknown
	}
	txt := string(out)
	if strings.Contains(txt, "(error") {
		return Unknown
	}
	for _, ln := range strings.Split(txt, "\n") {
		switch strings.TrimSpace(ln) {
		case "sat":
			return Sat
		case "unsat":
			return Unsat
		}
	}
	return Unknown
}
