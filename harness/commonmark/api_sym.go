//go:build verif

package commonmark

// Harness API. The bodies below are placeholders: the symbolic engine intercepts
// these functions by name; the native replay build replaces this file.

func nondetByte() byte             { return 0 }
func nondetBool() bool             { return false }
func nondetInt(lo, hi int) int     { return lo }
func assume(b bool)                {}
func check(b bool, clause string)  {}
func vdigest(b []byte)             {}
func vnote(s string)               {}
func vfreeze()                     {}
func vunfreeze()                   {}
func vconcrete(x int) int          { return x }
func vsymbolic(b byte) bool        { return false }
func vsame(a, b []byte) bool       { return string(a) == string(b) }
func vand(a, b bool) bool          { return a && b }
func vor(a, b bool) bool           { return a || b }
func vimplies(a, b bool) bool      { return !a || b }
func vaddrOf(b []byte) int         { return 0 }
func vutf8valid(b []byte) bool      { return false }
func vfreezeBytes(b []byte)          {}
func vunfreezeBytes(b []byte)        {}
