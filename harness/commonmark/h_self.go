//go:build verif

package commonmark

// Engine self-test (DESIGN.md §2.6-1): the repository's own test inputs (the 652
// CommonMark 0.30 spec examples embedded in internal/spec) are pushed through the
// symbolic interpreter in concrete mode and through the native build; this harness
// produces the digest both sides must agree on byte for byte: the tree dump (kinds,
// spans, accessors), positions, the reference map keys through the rendered links,
// and the HTML in six renderer configurations.
func H_SELF(n, _ int) {
	in := nondetBytes(n)
	blocks, refs := Parse(cloneBytes(in))
	vdigest(dumpBlocks(blocks))
	for soft := SoftBreakPreserve; soft <= SoftBreakHarden; soft++ {
		for raw := 0; raw < 2; raw++ {
			r := &HTMLRenderer{ReferenceMap: refs, SoftBreakBehavior: soft, IgnoreRaw: raw == 1}
			if raw == 0 && soft == SoftBreakPreserve {
				r.FilterTag = FilterTagGFM
			}
			vdigest(renderWith(r, blocks))
			vdigest([]byte{0})
		}
	}
	r := &HTMLRenderer{ReferenceMap: refs}
	vdigest(renderWith(r, blocks))
	sb, _, _ := parseStream(&byteReader{data: cloneBytes(in)})
	vdigest(dumpBlocks(sb))
}
