//go:build verif

package commonmark

// C17 — tag filtering only escapes '<' and leaves no filtered element openable.

const hX = "\xfe<>!-?/[]xmpXMP \n\r\f\t\"=\xfe" // one byte from the HTML alphabet

var c17Templates = []string{
	"<" + hX + hX + hX,               // 0
	"a <" + hX + hX + hX,             // 1
	"<!--" + hX + hX + hX,            // 2
	"<!" + hX + hX + hX,              // 3
	"<?" + hX + hX + hX,              // 4
	"<![CDATA[" + hX + hX + hX,       // 5
	"<xmp" + hX + hX + hX,            // 6
	"<3 <" + hX + hX + hX,            // 7
	"<!-->" + hX + hX + "<xmp>",      // 8
	"<![CDATA[ >" + hX + "<xmp>",     // 9
	"a <!--" + hX + hX + "<xmp>",     // 10
	"a  \nb" + hX,                    // 11 hard line break (generated <br>)
	"<" + hX + hX + hX + hX,          // 12 (thorough)
	"<!--" + hX + hX + hX + hX,       // 13 (thorough)
	"a <" + hX + hX + hX + hX + ">",  // 14 (thorough)
	"<xmp" + hX + hX + hX + hX,       // 15 (thorough)
	"<!" + hX + hX + hX + hX + hX,    // 16 (thorough)
	"a <?" + hX + "<xmp>?>",          // 17 inline processing instruction containing a tag
	"a <![CDATA[" + hX + "<xmp>]]>",  // 18 inline CDATA section containing a tag
	"<div>\n<" + hX + "<xmp>",        // 19 stray '<' / tag start directly before a tag in an HTML block
	"<div><xmp" + hX + "a>",          // 20 byte that ends (or does not end) a tag name
	"> a <?" + hX + "\n> <xmp>?>",    // 21 multi-line inline raw HTML inside a container
	"a <B> <" + hX + hX + hX + ">",   // 22 a second tag after one with an upper-case name
	"<DIV>\n<" + hX + hX + hX + ">",  // 23 the same in an HTML block
}

// the nine element names of the GFM tagfilter extension
var gfmNames = []string{"title", "textarea", "style", "xmp", "iframe", "noembed", "noframes", "script", "plaintext"}

// H_C17_gfm(i, _): FilterTagGFM rejects the i-th raw-text element name in every
// letter case (each letter's case is a solver variable), both as a predicate and
// through rendering "<NAME>" inline and as the second line of an HTML block.
func H_C17_gfm(i, _ int) {
	name := []byte(gfmNames[i])
	for k := range name {
		if nondetBool() {
			name[k] -= 'a' - 'A'
		}
	}
	lower := []byte(gfmNames[i])
	check(FilterTagGFM(lower), "C17.gfm.predicate")
	for form := 0; form < 2; form++ {
		var doc []byte
		if form == 0 {
			doc = append(doc, "a <"...)
		} else {
			doc = append(doc, "<div>\n<"...)
		}
		doc = append(doc, name...)
		doc = append(doc, "> b\n"...)
		blocks, refs := Parse(doc)
		out := renderWith(&HTMLRenderer{ReferenceMap: refs, FilterTag: FilterTagGFM}, blocks)
		check(!startTagRejected(out, FilterTagGFM), "C17.no-rejected-start-tag")
		vdigest(out)
	}
}


func filterXXmpScript(tag []byte) bool {
	s := string(tag)
	return s == "x" || s == "xmp" || s == "script"
}

var c17Preds = []func([]byte) bool{FilterTagGFM, rejectAll, filterNever, filterXmp, filterXXmpScript}

// isSpaceHTML: TAB, LF, FF, SPACE, and CR (the HTML input-stream preprocessing turns
// CR and CRLF into LF before the tokenizer sees them).
func isSpaceHTML(c byte) bool { return c == '\t' || c == '\n' || c == '\r' || c == '\f' || c == ' ' }

// htmlTagEnd: from the start of a tag name, the index just after the '>' that ends
// the tag, honouring quoted attribute values (WHATWG attribute states); -1 at EOF.
func htmlTagEnd(s []byte, k int) int {
	for k < len(s) && !isSpaceHTML(s[k]) && s[k] != '/' && s[k] != '>' {
		k++
	}
	// before-attribute-name and following states
	for k < len(s) {
		c := s[k]
		switch {
		case c == '>':
			return k + 1
		case c == '=':
			// attribute value may follow
			k++
			for k < len(s) && isSpaceHTML(s[k]) {
				k++
			}
			if k < len(s) && (s[k] == '"' || s[k] == '\'') {
				q := s[k]
				k++
				for k < len(s) && s[k] != q {
					k++
				}
				if k >= len(s) {
					return -1
				}
				k++
			}
		default:
			k++
		}
	}
	return -1
}

func indexFrom(s []byte, from int, pat string) int {
	for i := from; i+len(pat) <= len(s); i++ {
		if string(s[i:i+len(pat)]) == pat {
			return i
		}
	}
	return -1
}

// startTagRejected tokenises s per the WHATWG data / tag-open / end-tag-open /
// tag-name / markup-declaration-open / comment / bogus-comment states and reports
// whether any emitted start tag has a lower-cased name that pred rejects.
func startTagRejected(s []byte, pred func([]byte) bool) bool {
	i := 0
	for i < len(s) {
		if s[i] != '<' {
			i++
			continue
		}
		j := i + 1
		if j >= len(s) {
			break
		}
		switch {
		case s[j] == '!':
			if j+2 < len(s) && s[j+1] == '-' && s[j+2] == '-' {
				k := j + 3
				// comment-start states: "<!-->" and "<!--->" are empty comments
				if k < len(s) && s[k] == '>' {
					i = k + 1
					continue
				}
				if k+1 < len(s) && s[k] == '-' && s[k+1] == '>' {
					i = k + 2
					continue
				}
				e1 := indexFrom(s, k, "-->")
				e2 := indexFrom(s, k, "--!>")
				if e1 < 0 && e2 < 0 {
					return false // EOF in comment
				}
				if e2 >= 0 && (e1 < 0 || e2 < e1) {
					i = e2 + 4
				} else {
					i = e1 + 3
				}
				continue
			}
			// DOCTYPE, CDATA in HTML content, anything else: ends at the next '>'
			e := indexFrom(s, j, ">")
			if e < 0 {
				return false
			}
			i = e + 1
		case s[j] == '?':
			e := indexFrom(s, j, ">")
			if e < 0 {
				return false
			}
			i = e + 1
		case s[j] == '/':
			switch {
			case j+1 < len(s) && isASCIILetterRef(s[j+1]):
				e := htmlTagEnd(s, j+1)
				if e < 0 {
					return false
				}
				i = e
			case j+1 < len(s) && s[j+1] == '>':
				i = j + 2
			case j+1 < len(s):
				e := indexFrom(s, j, ">")
				if e < 0 {
					return false
				}
				i = e + 1
			default:
				i = j
			}
		case isASCIILetterRef(s[j]):
			k := j
			var name []byte
			for k < len(s) && !isSpaceHTML(s[k]) && s[k] != '/' && s[k] != '>' {
				name = append(name, lowerASCII(s[k]))
				k++
			}
			e := htmlTagEnd(s, j)
			if e < 0 {
				return false // EOF in tag: nothing emitted
			}
			if pred(name) {
				return true
			}
			i = e
		default:
			i = j // '<' is data
		}
	}
	return false
}

// onlyLtDiff: f is plain with some '<' replaced by "&lt;" and nothing else changed.
func onlyLtDiff(plain, f []byte) bool {
	a, b := 0, 0
	for a < len(plain) && b < len(f) {
		if plain[a] == f[b] {
			a++
			b++
			continue
		}
		if plain[a] == '<' && b+3 < len(f) && f[b] == '&' && f[b+1] == 'l' && f[b+2] == 't' && f[b+3] == ';' {
			a++
			b += 4
			continue
		}
		return false
	}
	return a == len(plain) && b == len(f)
}

func H_C17(t, pi int) {
	in := tmplBytes(c17Templates[t])
	blocks, refs := Parse(in)
	pred := c17Preds[pi]
	plain := renderWith(&HTMLRenderer{ReferenceMap: refs}, blocks)
	f := renderWith(&HTMLRenderer{ReferenceMap: refs, FilterTag: pred}, blocks)
	check(onlyLtDiff(plain, f), "C17.only-lt")
	if pi == 2 {
		check(vsame(plain, f), "C17.none-noop")
	}
	check(!startTagRejected(f, pred), "C17.no-rejected-start-tag")
	vdigest(f)
}

// H_C17_F: the same clauses on unconstrained short inputs.
func H_C17_F(n, pi int) {
	in := nondetBytes(n)
	blocks, refs := Parse(in)
	pred := c17Preds[pi]
	plain := renderWith(&HTMLRenderer{ReferenceMap: refs}, blocks)
	f := renderWith(&HTMLRenderer{ReferenceMap: refs, FilterTag: pred}, blocks)
	check(onlyLtDiff(plain, f), "C17.only-lt")
	if pi == 2 {
		check(vsame(plain, f), "C17.none-noop")
	}
	check(!startTagRejected(f, pred), "C17.no-rejected-start-tag")
	vdigest(f)
}
