//go:build verif

package commonmark

import "strings"

// An independent reference renderer: it reads the tree only through exported
// accessors and has its own escapers and URI normaliser. Conventions pinned here
// (DESIGN.md §C10): text escaped with &amp; &#39; &lt; &gt; &quot;, attribute
// values with &amp; &#39; &lt; &gt; &#34;; attribute order href,title / src,title,alt;
// <br> + LF for hard breaks; character references copied verbatim; no <p> inside
// tight list items; start= only when the first number is not 1; class from the
// first word of the info string; generated close tags are offered to the filter
// predicate with their leading slash.

type refCfg struct {
	soft      SoftBreakBehavior
	ignoreRaw bool
	filter    func(tag []byte) bool
	skeleton  bool // emit only tag/attribute names (for C07)
}

type refRenderer struct {
	cfg  refCfg
	refs ReferenceMap
	src  []byte
	out  []byte
}

func (r *refRenderer) text(b []byte) {
	if r.cfg.skeleton {
		return
	}
	for _, c := range b {
		switch c {
		case '&':
			r.out = append(r.out, "&amp;"...)
		case '\'':
			r.out = append(r.out, "&#39;"...)
		case '<':
			r.out = append(r.out, "&lt;"...)
		case '>':
			r.out = append(r.out, "&gt;"...)
		case '"':
			r.out = append(r.out, "&quot;"...)
		default:
			r.out = append(r.out, c)
		}
	}
}

func (r *refRenderer) raw(b []byte) {
	if r.cfg.skeleton {
		return
	}
	r.out = append(r.out, b...)
}

func (r *refRenderer) attrValue(s string) {
	if r.cfg.skeleton {
		return
	}
	for i := 0; i < len(s); i++ {
		switch c := s[i]; c {
		case '&':
			r.out = append(r.out, "&amp;"...)
		case '\'':
			r.out = append(r.out, "&#39;"...)
		case '<':
			r.out = append(r.out, "&lt;"...)
		case '>':
			r.out = append(r.out, "&gt;"...)
		case '"':
			r.out = append(r.out, "&#34;"...)
		default:
			r.out = append(r.out, c)
		}
	}
}

func (r *refRenderer) open(name string, close bool) {
	r.openNoEnd(name)
	if close {
		r.out = append(r.out, '>')
	}
}

func (r *refRenderer) openNoEnd(name string) {
	if r.cfg.filter != nil && r.cfg.filter([]byte(name)) {
		r.out = append(r.out, "&lt;"...)
	} else {
		r.out = append(r.out, '<')
	}
	r.out = append(r.out, name...)
}

func (r *refRenderer) closeTag(name string) {
	if r.cfg.filter != nil && r.cfg.filter([]byte("/"+name)) {
		r.out = append(r.out, "&lt;/"...)
	} else {
		r.out = append(r.out, "</"...)
	}
	r.out = append(r.out, name...)
	r.out = append(r.out, '>')
}

func (r *refRenderer) attr(name, val string) {
	r.out = append(r.out, ' ')
	r.out = append(r.out, name...)
	if r.cfg.skeleton {
		return
	}
	r.out = append(r.out, `="`...)
	r.attrValue(val)
	r.out = append(r.out, '"')
}

const refHex = "0123456789ABCDEF"

func refIsHex(c byte) bool {
	return '0' <= c && c <= '9' || 'a' <= c && c <= 'f' || 'A' <= c && c <= 'F'
}

// refNormalizeURI: RFC 3986 reserved/unreserved characters and existing
// percent-escapes are kept; everything else is percent-encoded as UTF-8
// (invalid UTF-8 bytes become U+FFFD, as Go's string iteration does).
func refNormalizeURI(s string) string {
	var out []byte
	for i := 0; i < len(s); {
		c := s[i]
		switch {
		case c == '%':
			if i+2 < len(s) && refIsHex(s[i+1]) && refIsHex(s[i+2]) {
				out = append(out, '%', s[i+1], s[i+2])
				i += 3
			} else {
				out = append(out, "%25"...)
				i++
			}
		case 'a' <= c && c <= 'z' || 'A' <= c && c <= 'Z' || '0' <= c && c <= '9':
			out = append(out, c)
			i++
		case c < 0x80:
			safe := false
			const set = ";/?:@&=+$,-_.!~*'()#"
			for k := 0; k < len(set); k++ {
				if c == set[k] {
					safe = true
				}
			}
			if safe {
				out = append(out, c)
			} else {
				out = append(out, '%', refHex[c>>4], refHex[c&15])
			}
			i++
		default:
			// decode one UTF-8 sequence; invalid -> EF BF BD, one byte consumed
			n := refUTF8Len(s[i:])
			if n == 0 {
				out = append(out, "%EF%BF%BD"...)
				i++
			} else {
				for k := 0; k < n; k++ {
					b := s[i+k]
					out = append(out, '%', refHex[b>>4], refHex[b&15])
				}
				i += n
			}
		}
	}
	return string(out)
}

// refUTF8Len returns the length of the valid UTF-8 sequence at the start of s (0 if invalid).
func refUTF8Len(s string) int {
	c := s[0]
	cont := func(i int, lo, hi byte) bool { return i < len(s) && lo <= s[i] && s[i] <= hi }
	switch {
	case 0xC2 <= c && c <= 0xDF:
		if cont(1, 0x80, 0xBF) {
			return 2
		}
	case c == 0xE0:
		if cont(1, 0xA0, 0xBF) && cont(2, 0x80, 0xBF) {
			return 3
		}
	case 0xE1 <= c && c <= 0xEC, 0xEE <= c && c <= 0xEF:
		if cont(1, 0x80, 0xBF) && cont(2, 0x80, 0xBF) {
			return 3
		}
	case c == 0xED:
		if cont(1, 0x80, 0x9F) && cont(2, 0x80, 0xBF) {
			return 3
		}
	case c == 0xF0:
		if cont(1, 0x90, 0xBF) && cont(2, 0x80, 0xBF) && cont(3, 0x80, 0xBF) {
			return 4
		}
	case 0xF1 <= c && c <= 0xF3:
		if cont(1, 0x80, 0xBF) && cont(2, 0x80, 0xBF) && cont(3, 0x80, 0xBF) {
			return 4
		}
	case c == 0xF4:
		if cont(1, 0x80, 0x8F) && cont(2, 0x80, 0xBF) && cont(3, 0x80, 0xBF) {
			return 4
		}
	}
	return 0
}

func (r *refRenderer) hardBreak() {
	r.open("br", true)
	r.raw([]byte("\n"))
}

var refHeadingTags = [...]string{"h6", "h1", "h2", "h3", "h4", "h5", "h6"}

func firstWord(s string) string {
	if f := strings.Fields(s); len(f) > 0 {
		return f[0]
	}
	return ""
}

func (r *refRenderer) block(b *Block, parentTight bool) {
	switch b.Kind() {
	case ParagraphKind:
		if !parentTight {
			r.open("p", true)
		}
		r.inlines(b.AsNode())
		if !parentTight {
			r.closeTag("p")
		}
	case ThematicBreakKind:
		r.open("hr", true)
	case ATXHeadingKind, SetextHeadingKind:
		lvl := b.HeadingLevel()
		if lvl < 1 || lvl > 6 {
			lvl = 0
		}
		r.open(refHeadingTags[lvl], true)
		r.inlines(b.AsNode())
		r.closeTag(refHeadingTags[lvl])
	case IndentedCodeBlockKind, FencedCodeBlockKind:
		r.open("pre", true)
		r.openNoEnd("code")
		if info := b.InfoString(); info != nil {
			if w := firstWord(info.Text(r.src)); w != "" {
				r.attr("class", "language-"+w)
			}
		}
		r.out = append(r.out, '>')
		r.inlines(b.AsNode())
		r.closeTag("code")
		r.closeTag("pre")
	case BlockQuoteKind:
		r.open("blockquote", true)
		for i := 0; i < b.ChildCount(); i++ {
			r.block(b.Child(i).Block(), false)
		}
		r.closeTag("blockquote")
	case ListKind:
		if b.IsOrderedList() {
			r.openNoEnd("ol")
			if b.ChildCount() > 0 {
				if n := b.Child(0).Block().ListItemNumber(r.src); n >= 0 && n != 1 {
					r.attr("start", itoa(n))
				}
			}
			r.out = append(r.out, '>')
		} else {
			r.open("ul", true)
		}
		for i := 0; i < b.ChildCount(); i++ {
			r.block(b.Child(i).Block(), false)
		}
		if b.IsOrderedList() {
			r.closeTag("ol")
		} else {
			r.closeTag("ul")
		}
	case ListItemKind:
		r.open("li", true)
		for i := 0; i < b.ChildCount(); i++ {
			r.block(b.Child(i).Block(), b.IsTightList())
		}
		r.closeTag("li")
	case HTMLBlockKind:
		if !r.cfg.ignoreRaw {
			r.inlines(b.AsNode())
		}
	}
}

func (r *refRenderer) inlines(n Node) {
	for i := 0; i < n.ChildCount(); i++ {
		r.inline(n.Child(i).Inline())
	}
}

func (r *refRenderer) linkDef(in *Inline) (dest, title string, hasTitle bool) {
	if ref := in.LinkReference(); ref != "" {
		d := r.refs[ref]
		return d.Destination, d.Title, d.TitlePresent
	}
	if d := in.LinkDestination(); d != nil {
		dest = d.Text(r.src)
	}
	if t := in.LinkTitle(); t != nil {
		title, hasTitle = t.Text(r.src), true
	}
	return
}

// altText collects the plain-text content of an image description.
func (r *refRenderer) altText(in *Inline, dst []byte, any *bool) []byte {
	for i := 0; i < in.ChildCount(); i++ {
		c := in.Child(i)
		switch c.Kind() {
		case TextKind, CharacterReferenceKind:
			dst = append(dst, c.Text(r.src)...)
			*any = true
		case IndentKind, SoftLineBreakKind, HardLineBreakKind:
			dst = append(dst, ' ')
			*any = true
		case LinkDestinationKind, LinkTitleKind, LinkLabelKind:
		default:
			dst = r.altText(c, dst, any)
		}
	}
	return dst
}

func (r *refRenderer) inline(in *Inline) {
	switch in.Kind() {
	case TextKind, UnparsedKind:
		sp := in.Span()
		r.text(r.src[sp.Start:sp.End])
	case CharacterReferenceKind:
		sp := in.Span()
		r.raw(r.src[sp.Start:sp.End])
	case RawHTMLKind:
		if !r.cfg.ignoreRaw {
			sp := in.Span()
			if r.cfg.filter == nil {
				r.raw(r.src[sp.Start:sp.End])
			} else {
				r.filteredRaw(r.src[sp.Start:sp.End])
			}
		}
	case SoftLineBreakKind:
		if in.Span().Len() == 0 {
			// the line ending supplied for a code block that ends at end of input:
			// code block contents are verbatim, no soft-break setting applies
			r.raw([]byte("\n"))
			break
		}
		switch r.cfg.soft {
		case SoftBreakHarden:
			r.hardBreak()
		case SoftBreakSpace:
			r.raw([]byte(" "))
		default:
			sp := in.Span()
			r.raw(r.src[sp.Start:sp.End])
		}
	case HardLineBreakKind:
		r.hardBreak()
	case EmphasisKind:
		r.open("em", true)
		r.inlines(in.AsNode())
		r.closeTag("em")
	case StrongKind:
		r.open("strong", true)
		r.inlines(in.AsNode())
		r.closeTag("strong")
	case CodeSpanKind:
		r.open("code", true)
		r.inlines(in.AsNode())
		r.closeTag("code")
	case LinkKind:
		dest, title, hasTitle := r.linkDef(in)
		r.openNoEnd("a")
		r.attr("href", refNormalizeURI(dest))
		if hasTitle {
			r.attr("title", title)
		}
		r.out = append(r.out, '>')
		r.inlines(in.AsNode())
		r.closeTag("a")
	case ImageKind:
		dest, title, hasTitle := r.linkDef(in)
		r.openNoEnd("img")
		r.attr("src", refNormalizeURI(dest))
		if hasTitle {
			r.attr("title", title)
		}
		any := false
		alt := r.altText(in, nil, &any)
		r.attr("alt", string(alt))
		r.out = append(r.out, '>')
	case AutolinkKind:
		dest := ""
		if in.ChildCount() > 0 {
			dest = in.Child(0).Text(r.src)
		}
		r.openNoEnd("a")
		href := refNormalizeURI(dest)
		if refEmail([]byte(dest)) {
			href = "mailto:" + href
		}
		r.attr("href", href)
		r.out = append(r.out, '>')
		if !r.cfg.skeleton {
			r.attrValue(dest)
		}
		r.closeTag("a")
	case IndentKind:
		for i, n := 0, in.IndentWidth(); i < n; i++ {
			r.raw([]byte(" "))
		}
	case HTMLTagKind:
		r.inlines(in.AsNode())
	case LinkDestinationKind, LinkTitleKind, LinkLabelKind, InfoStringKind:
		// not rendered directly
	}
}

func lowerASCII(c byte) byte {
	if 'A' <= c && c <= 'Z' {
		return c + 'a' - 'A'
	}
	return c
}

func hasPrefixFold(b []byte, p string) bool {
	if len(b) < len(p) {
		return false
	}
	for i := 0; i < len(p); i++ {
		if lowerASCII(b[i]) != lowerASCII(p[i]) {
			return false
		}
	}
	return true
}

// filteredRaw: the tag filter applied to a run of raw HTML. Every "<" is
// considered, whatever surrounds it; the name an HTML tokenizer would give a tag
// starting there (empty unless a letter follows; up to TAB, LF, FF, SP, "/" or ">"),
// lower-cased, is offered to the predicate, and the "<" is escaped if it rejects.
func (r *refRenderer) filteredRaw(b []byte) {
	for i := 0; i < len(b); i++ {
		if b[i] != '<' {
			r.out = append(r.out, b[i])
			continue
		}
		var name []byte
		if i+1 < len(b) && isASCIILetterRef(b[i+1]) {
			for k := i + 1; k < len(b) && !isSpaceHTML(b[k]) && b[k] != '/' && b[k] != '>'; k++ {
				name = append(name, lowerASCII(b[k]))
			}
		}
		if r.cfg.filter(name) {
			r.out = append(r.out, "&lt;"...)
		} else {
			r.out = append(r.out, '<')
		}
	}
}

func isASCIILetterRef(c byte) bool { return 'a' <= c && c <= 'z' || 'A' <= c && c <= 'Z' }

func refRender(cfg refCfg, blocks []*RootBlock, refs ReferenceMap) []byte {
	r := &refRenderer{cfg: cfg, refs: refs}
	for i, b := range blocks {
		if i > 0 {
			r.raw([]byte("\n\n"))
		}
		r.src = b.Source
		r.block(&b.Block, false)
	}
	return r.out
}
