//go:build verif

package commonmark

func nondetBytes(n int) []byte {
	b := make([]byte, n)
	for i := range b {
		b[i] = nondetByte()
	}
	return b
}

func H_spike_atx(n int) {
	line := nondetBytes(n)
	h := parseATXHeading(line)
	check(h.level >= 0 && h.level <= 6, "level")
	check(h.level == 0 || (h.content.Start <= h.content.End && h.content.End <= n && h.content.Start >= h.level), "content")
}

func H_spike_parse(n int) {
	in := nondetBytes(n)
	blocks, _ := Parse(in)
	for _, b := range blocks {
		check(b.StartOffset >= 0 && b.EndOffset <= int64(n), "offs")
	}
}

func H_spike_render(n int) {
	in := nondetBytes(n)
	blocks, refs := Parse(in)
	var out []byte
	for _, b := range blocks {
		out = (&HTMLRenderer{ReferenceMap: refs}).AppendBlock(out, b)
	}
	vdigest(out)
}
