//go:build verif

package commonmark

import (
	"bytes"
	"os"
	"unicode/utf8"
	"unsafe"
)

// Native bodies of the harness API, used when a path of the symbolic engine is
// replayed against the natively compiled library (go test -overlay).

type vAssumeFailed struct{}

var vst struct {
	model  []uint64
	pos    int
	failed []string
	digest []byte
	notes  []string
}

func vreset(model []uint64) {
	vst.model, vst.pos = model, 0
	vst.failed, vst.digest, vst.notes = nil, nil, nil
}

func vnext() uint64 {
	var v uint64
	if vst.pos < len(vst.model) {
		v = vst.model[vst.pos]
	}
	vst.pos++
	return v
}

func nondetByte() byte { return byte(vnext()) }

func nondetBool() bool {
	v := vnext() & 0xff
	if v > 1 {
		panic(vAssumeFailed{})
	}
	return v == 1
}

func nondetInt(lo, hi int) int {
	if hi < lo {
		panic(vAssumeFailed{})
	}
	rng := uint64(hi - lo)
	v := vnext()
	if rng <= 255 {
		v &= 0xff
	}
	if v > rng {
		panic(vAssumeFailed{})
	}
	return lo + int(v)
}

func assume(b bool) {
	if !b {
		panic(vAssumeFailed{})
	}
}

// vTwin: vacuity twin (vcheck twin): every check reached counts as failed, which
// shows that the assertion is reachable under the harness's assumptions.
var vTwin = os.Getenv("VERIF_TWIN") != ""

func check(b bool, clause string) {
	if !b || vTwin {
		vst.failed = append(vst.failed, clause)
	}
}

func vdigest(b []byte)        { vst.digest = append(vst.digest, b...) }
func vnote(s string)          { vst.notes = append(vst.notes, s) }
func vfreeze()                {}
func vunfreeze()              {}
func vconcrete(x int) int     { return x }
func vsymbolic(b byte) bool   { return false }
func vsame(a, b []byte) bool  { return bytes.Equal(a, b) }
func vand(a, b bool) bool     { return a && b }
func vor(a, b bool) bool      { return a || b }
func vimplies(a, b bool) bool { return !a || b }
func vaddrOf(b []byte) int {
	if len(b) == 0 {
		return 0
	}
	return int(uintptr(unsafe.Pointer(&b[0])))
}
func vutf8valid(b []byte) bool { return utf8.Valid(b) }
func vfreezeBytes(b []byte)   {}
func vunfreezeBytes(b []byte) {}
