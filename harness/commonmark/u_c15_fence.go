//go:build verif

package commonmark

// Unit harness of C15 (names unexported identifiers of the library; if it stops
// type-checking against the working tree it is skipped, see DESIGN.md §13.2).

func H_C15_fence(n, _ int) {
	line, body := nondetLine(n)
	if body > 0 {
		assume(!isST(line[0]))
	}
	wc, wn, ws, we := refFence(line[:body])
	f := parseCodeFence(line)
	check(f.n == wn, "C15.fence.length")
	if wn > 0 && f.n == wn {
		check(f.char == wc, "C15.fence.char")
		if we > ws {
			check(f.info.Start == ws && f.info.End == we, "C15.fence.info")
		} else {
			check(!f.info.IsValid() || f.info.Len() == 0, "C15.fence.info-empty")
		}
	}
}
