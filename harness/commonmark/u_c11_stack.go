//go:build verif

package commonmark

// Unit harness of C11 (names unexported identifiers of the library; if it stops
// type-checking against the working tree it is skipped, see DESIGN.md §13.2).
//
// One run of processEmphasis from an ARBITRARY valid delimiter stack: instead of
// spelling text whose parse produces a given stack (which needs 2-3 characters per
// entry and therefore stops at 6-9 entries in H_C11), the stack is constructed
// directly. Entry i is a run of '*' or '_' of length 1..3 with solver-chosen
// can-open / can-close flags; runs are separated by one-byte text nodes. Every such
// stack is reachable from some paragraph (flanking of a run depends only on its two
// neighbour characters, which a separator of two characters sets independently), so a
// violation here is a violation of the public behaviour; it is replayed natively
// through this same harness.

type c11SE struct {
	delim       byte // '*' or '_'
	n           int
	open, close bool
}

// c11StackRef: the spec's process-emphasis procedure (no openers_bottom) on abstract
// entries above stackBottom; output: for every top-level node a token.
func c11StackRef(es []c11SE, bottom int) []byte {
	var toks []*c11Tok
	for i, e := range es {
		t := &c11Tok{delim: e.delim, n: e.n, orig: e.n, open: e.open, close: e.close, kind: "", text: []byte{byte(i)}}
		toks = append(toks, t)
		toks = append(toks, &c11Tok{text: []byte{'a'}})
	}
	nodes := toks
	idx := func(t *c11Tok) int {
		for k, x := range nodes {
			if x == t {
				return k
			}
		}
		return -1
	}
	var stack []*c11Tok
	for i, t := range toks {
		if t.delim != 0 && i/2 >= bottom {
			stack = append(stack, t)
		}
	}
	cur := 0
	for cur < len(stack) {
		c := stack[cur]
		if !c.close {
			cur++
			continue
		}
		found := -1
		for k := cur - 1; k >= 0; k-- {
			o := stack[k]
			if o.delim != c.delim || !o.open {
				continue
			}
			if (o.close || c.open) && (o.orig+c.orig)%3 == 0 && !(o.orig%3 == 0 && c.orig%3 == 0) {
				continue
			}
			found = k
			break
		}
		if found < 0 {
			if !c.open {
				stack = append(stack[:cur], stack[cur+1:]...)
			} else {
				cur++
			}
			continue
		}
		o := stack[found]
		use, kind := 1, "em"
		if o.n >= 2 && c.n >= 2 {
			use, kind = 2, "strong"
		}
		oi, ci := idx(o), idx(c)
		wrapped := &c11Tok{kind: kind, children: append([]*c11Tok(nil), nodes[oi+1:ci]...)}
		nn := append([]*c11Tok(nil), nodes[:oi+1]...)
		nn = append(nn, wrapped)
		nn = append(nn, nodes[ci:]...)
		nodes = nn
		o.n -= use
		c.n -= use
		stack = append(stack[:found+1], stack[cur:]...)
		cur = found + 1
		if o.n == 0 {
			k := idx(o)
			nodes = append(nodes[:k], nodes[k+1:]...)
			stack = append(stack[:found], stack[found+1:]...)
			cur--
		}
		if c.n == 0 {
			k := idx(c)
			nodes = append(nodes[:k], nodes[k+1:]...)
			stack = append(stack[:cur], stack[cur+1:]...)
		}
	}
	var out []byte
	var emit func(ts []*c11Tok)
	emit = func(ts []*c11Tok) {
		for _, t := range ts {
			switch {
			case t.kind == "em":
				out = append(out, '(')
				emit(t.children)
				out = append(out, ')')
			case t.kind == "strong":
				out = append(out, '[')
				emit(t.children)
				out = append(out, ']')
			case t.delim != 0:
				out = append(out, 'r', '0'+t.text[0], '0'+byte(t.n))
			default:
				out = append(out, 'a')
			}
		}
	}
	emit(nodes)
	return out
}

// H_C11_stack(k, mode): k entries. mode 0: both delimiter characters, lengths 1..3, all
// four flag combinations, stackBottom 0; mode 1: the same with stackBottom in 0..2
// (as finishLink calls it); mode 2 / 3: only '*' / only '_' runs that can open or
// close (nine kinds of entry instead of 24), for deeper stacks.
func H_C11_stack(k, mode int) {
	maxBottom := 0
	if mode == 1 {
		maxBottom = 2
	}
	es := make([]c11SE, k)
	source := make([]byte, 4*k)
	root := &Inline{span: Span{Start: 0, End: 4 * k}}
	state := &inlineState{
		root:      root,
		source:    source,
		blockKind: ParagraphKind,
		parentMap: make(map[*Inline]*Inline),
	}
	runNode := map[*Inline]int{}
	for i := range es {
		// type and length are enumerated; the can-open / can-close flags stay symbolic
		// (no branching here): the paths of processEmphasis and of the reference
		// decide which of them matter
		t := byte(0)
		switch mode {
		case 2:
		case 3:
			t = 1
		default:
			t = byte(vconcrete(nondetInt(0, 1)))
		}
		o := nondetByte()
		assume(o <= 1)
		c := nondetByte()
		assume(c <= 1)
		if mode >= 2 {
			assume(o|c == 1) // a run that can neither open nor close is inert
		}
		n := vconcrete(nondetInt(1, 3))
		e := c11SE{delim: '*' + t*('_'-'*'), n: n, open: o == 1, close: c == 1}
		es[i] = e
		for j := 0; j < 4; j++ {
			source[4*i+j] = 'a'
		}
		node := &Inline{kind: TextKind, span: Span{Start: 4 * i, End: 4*i + n}}
		sep := &Inline{kind: TextKind, span: Span{Start: 4*i + 3, End: 4*i + 4}}
		root.children = append(root.children, node, sep)
		state.parentMap[node] = root
		state.parentMap[sep] = root
		runNode[node] = i
		elem := delimiterStackElement{flags: activeFlag | o*openerFlag | c*closerFlag, n: n, node: node,
			typ: inlineDelimiterStar + inlineDelimiter(t)*(inlineDelimiterUnderscore-inlineDelimiterStar)}
		state.stack = append(state.stack, elem)
	}
	bottom := 0
	if maxBottom > 0 {
		bottom = vconcrete(nondetInt(0, maxBottom))
	}
	want := c11StackRef(es, bottom)
	p := &InlineParser{}
	p.processEmphasis(state, bottom)
	var got []byte
	var emit func(ns []*Inline)
	emit = func(ns []*Inline) {
		for _, n := range ns {
			switch n.Kind() {
			case EmphasisKind:
				got = append(got, '(')
				emit(n.children)
				got = append(got, ')')
			case StrongKind:
				got = append(got, '[')
				emit(n.children)
				got = append(got, ']')
			default:
				if i, ok := runNode[n]; ok {
					got = append(got, 'r', '0'+byte(i), '0'+byte(n.Span().Len()))
				} else {
					got = append(got, 'a')
				}
			}
		}
	}
	emit(root.children)
	if !vsame(got, want) {
		vnote("got=" + string(got))
		vnote("want=" + string(want))
	}
	check(vsame(got, want), "C11.stack.structure")
	check(len(state.stack) == bottom, "C11.stack.cleared-above-bottom")
	vdigest(got)
}
