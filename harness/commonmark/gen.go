//go:build verif

package commonmark

// Canonical-document generator shared by C06 and C20 (DESIGN.md Appendix D).
// It builds an abstract document under a node budget, serialises it making every
// free spelling choice through nondetInt/nondetBool, and produces the HTML the
// CommonMark 0.30 mapping assigns to it. Only spellings whose reading the spec
// fixes are emitted; what cannot be spelled unambiguously is not generated.

type cgen struct {
	budget   int  // remaining nodes (blocks + inline atoms)
	fmtSafe  bool // restrict to the construct set the formatter supports (C20)
	refdefs  [][]byte
	nrefs    int
	crlf     bool
	maxDepth int
	rich     bool // full menus of spelling choices (thorough tier); otherwise reduced menus
	plain    bool // inline content restricted to words, soft and hard breaks (block-structure bounds)
	nlists   int  // lists generated so far (extra indentation after a list would be a continuation)
}

func (g *cgen) take() bool {
	if g.budget <= 0 {
		return false
	}
	g.budget--
	return true
}

func (g *cgen) pick(n int) int { return vconcrete(nondetInt(0, n-1)) }

func (g *cgen) letter() byte {
	b := nondetByte()
	assume(isL(b))
	return b
}

func (g *cgen) word() []byte {
	w := []byte{g.letter()}
	if g.rich && nondetBool() {
		w = append(w, g.letter())
	}
	return w
}

// menu returns the number of entries of a choice list that are available in this tier.
func (g *cgen) menu(full, reduced int) int {
	if g.rich {
		return full
	}
	return reduced
}

// escText appends the HTML-escaped form of (possibly symbolic) byte c.
func escText(dst []byte, c byte) []byte {
	switch c {
	case '&':
		return append(dst, "&amp;"...)
	case '<':
		return append(dst, "&lt;"...)
	case '>':
		return append(dst, "&gt;"...)
	case '"':
		return append(dst, "&quot;"...)
	case '\'':
		return append(dst, "&#39;"...)
	}
	return append(dst, c)
}

const (
	aWord = iota
	aEsc
	aEnt
	aEm
	aStrong
	aCode
	aLink
	aImg
	aAuto
	aRaw
	aRef
	aHard
	aSoft
	aKinds
)

var genEntities = []struct{ md, html string }{
	{"&amp;", "&amp;"}, {"&lt;", "&lt;"}, {"&gt;", "&gt;"}, {"&quot;", "&quot;"},
	{"&copy;", "\xc2\xa9"}, {"&#35;", "#"}, {"&#x22;", "&quot;"}, {"&#0;", "\xef\xbf\xbd"},
}

// inlines generates a non-empty inline sequence. multiline: soft/hard breaks allowed.
// The sequence always starts and ends with a word-like atom so that neighbouring
// constructs cannot change its reading.
func (g *cgen) inlines(depth int, multiline, inLink bool) (md, html []byte) {
	w := g.word()
	md, html = append(md, w...), append(html, w...)
	prevTight := false // previous atom is emphasis/code (needs a separator before a similar one)
	prevBracket := false
	for g.budget > 0 && nondetBool() {
		g.take()
		k := g.pick(aKinds)
		if g.plain {
			k = [...]int{aWord, aSoft, aHard}[g.pick(3)]
		}
		// separator: a single space, or nothing
		sep := nondetBool()
		tight := k == aEm || k == aStrong || k == aCode
		if prevTight && tight {
			sep = true
		}
		bracket := k == aRef || k == aLink || k == aImg
		if prevBracket && bracket {
			sep = true // "[a][b]" would read as one full reference
		}
		prevBracket = bracket
		if k == aHard || k == aSoft {
			sep = false
		}
		if sep {
			md, html = append(md, ' '), append(html, ' ')
		}
		prevTight = tight
		switch k {
		case aWord:
			w := g.word()
			md, html = append(md, w...), append(html, w...)
		case aEsc:
			p := nondetByte()
			assume(classOK(p, 'P'))
			if g.fmtSafe {
				// the formatter's escape set plus the neutral punctuation of DESIGN.md §C20
				ok := false
				const set = "\\[]*_-=<>&#~`,;:'\"?/(){}^%$@|"
				for i := 0; i < len(set); i++ {
					ok = vor(ok, p == set[i])
				}
				assume(ok)
			}
			md = append(md, '\\', p)
			html = escText(html, p)
		case aEnt:
			e := genEntities[g.pick(g.menu(len(genEntities), 3))]
			if g.fmtSafe && e.md == "&#0;" {
				e = genEntities[0]
			}
			// character references are copied to the output verbatim (pinned convention, DESIGN.md §C10)
			md, html = append(md, e.md...), append(html, e.md...)
		case aEm, aStrong:
			if depth >= 2 {
				w := g.word()
				md, html = append(md, w...), append(html, w...)
				break
			}
			imd, ihtml := g.emphContent(depth + 1)
			d := "*"
			tag := "em"
			if k == aStrong {
				d, tag = "**", "strong"
			}
			md = append(append(append(md, d...), imd...), d...)
			html = append(append(append(append(html, '<'), tag...), '>'), ihtml...)
			html = append(append(append(html, "</"...), tag...), '>')
		case aCode:
			t := g.word()
			if nondetBool() {
				t = append(append(t, ' '), g.word()...)
			}
			ticks := "`"
			if !g.fmtSafe && g.rich && nondetBool() {
				ticks = "``"
			}
			md = append(append(append(md, ticks...), t...), ticks...)
			html = append(append(append(html, "<code>"...), t...), "</code>"...)
		case aLink:
			if inLink || depth >= 2 {
				w := g.word()
				md, html = append(md, w...), append(html, w...)
				break
			}
			txt := g.word()
			dest := append([]byte{'/'}, g.word()...)
			md = append(append(append(append(md, '['), txt...), "]("...), dest...)
			html = append(append(append(html, `<a href="`...), dest...), '"')
			if nondetBool() {
				t := g.word()
				q := byte('"')
				if !g.fmtSafe && g.rich && nondetBool() {
					q = '\''
				}
				md = append(append(append(append(md, ' '), q), t...), q)
				html = append(append(append(html, ` title="`...), t...), '"')
			}
			md = append(md, ')')
			html = append(append(append(html, '>'), txt...), "</a>"...)
		case aImg:
			alt := g.word()
			src := append([]byte{'/'}, g.word()...)
			md = append(append(append(append(append(md, "!["...), alt...), "]("...), src...), ')')
			html = append(append(append(append(append(html, `<img src="`...), src...), `" alt="`...), alt...), `">`...)
		case aAuto:
			u := append([]byte("http://"), g.word()...)
			md = append(append(append(md, '<'), u...), '>')
			html = append(append(append(append(append(html, `<a href="`...), u...), `">`...), u...), "</a>"...)
		case aRaw:
			tags := []string{"<b>", "</b>", "<br/>", "<!-- c -->"}
			t := tags[g.pick(g.menu(len(tags), 2))]
			md, html = append(md, t...), append(html, t...)
		case aRef:
			if inLink || depth >= 2 {
				w := g.word()
				md, html = append(md, w...), append(html, w...)
				break
			}
			// label letters are concrete so that different definitions cannot collide
			g.nrefs++
			label := []byte{'r', byte('a' + g.nrefs)}
			txt := g.word()
			dest := append([]byte{'/'}, g.word()...)
			style := g.pick(3)
			switch style {
			case 0: // full
				lbl := label
				if nondetBool() {
					lbl = []byte{'R', label[1]} // case variant
				}
				md = append(append(append(append(append(md, '['), txt...), "]["...), lbl...), ']')
			case 1: // collapsed: the text is the label
				txt = label
				md = append(append(append(md, '['), txt...), "][]"...)
			default: // shortcut
				txt = label
				md = append(append(append(md, '['), txt...), ']')
			}
			def := append(append(append([]byte{'['}, label...), "]: "...), dest...)
			g.refdefs = append(g.refdefs, def)
			html = append(append(append(append(append(html, `<a href="`...), dest...), `">`...), txt...), "</a>"...)
		case aHard, aSoft:
			if !multiline {
				w := g.word()
				md, html = append(md, w...), append(html, w...)
				break
			}
			if k == aHard {
				if nondetBool() {
					md = append(md, '\\', '\n')
				} else {
					md = append(md, ' ', ' ', '\n')
				}
				html = append(html, "<br>\n"...)
			} else {
				md = append(md, '\n')
				html = append(html, '\n')
			}
			prevTight, prevBracket = false, false
			// the next line starts with a word (optionally indented: stripped)
			if !g.fmtSafe {
				for i, n := 0, g.pick(g.menu(4, 2)); i < n; i++ {
					md = append(md, ' ')
				}
			}
			w := g.word()
			md, html = append(md, w...), append(html, w...)
			continue
		}
		// keep word-like edges: if the last atom is not word-like, close with a word
		if k != aWord {
			if nondetBool() || g.budget == 0 || true {
				if tight || k == aRaw || k == aAuto || k == aLink || k == aRef || k == aImg {
					// a following letter never changes these constructs
				}
			}
		}
	}
	return md, html
}

// emphContent: content of an emphasis node: starts and ends with a word; may hold
// one nested construct using the other delimiter character.
func (g *cgen) emphContent(depth int) (md, html []byte) {
	w := g.word()
	md, html = append(md, w...), append(html, w...)
	if g.budget > 0 && nondetBool() {
		g.take()
		switch g.pick(3) {
		case 0:
			md, html = append(md, ' '), append(html, ' ')
			w := g.word()
			md, html = append(md, w...), append(html, w...)
		case 1: // nested emphasis with the other delimiter, separated by spaces
			x := g.word()
			md = append(append(append(md, " _"...), x...), "_ "...)
			html = append(append(append(html, " <em>"...), x...), "</em> "...)
			w := g.word()
			md, html = append(md, w...), append(html, w...)
		default: // code span inside
			x := g.word()
			md = append(append(append(md, " `"...), x...), "` "...)
			html = append(append(append(html, " <code>"...), x...), "</code> "...)
			w := g.word()
			md, html = append(md, w...), append(html, w...)
		}
	}
	return
}

const (
	bPara = iota
	bATX
	bSetext
	bHR
	bFenced
	bIndented
	bQuote
	bBullet
	bOrdered
	bHTML
	bRefDef
	bKinds
)

func splitLines(md []byte) [][]byte {
	var lines [][]byte
	start := 0
	for i := 0; i < len(md); i++ {
		if md[i] == '\n' {
			lines = append(lines, md[start:i])
			start = i + 1
		}
	}
	return append(lines, md[start:])
}

// flexMark starts a line on which up to three columns of additional leading
// indentation do not change the meaning (paragraph text, ATX headings, setext
// content and underlines, thematic breaks, reference definitions - all emitted
// with no indentation of their own). Containers use it to choose equivalent
// spellings of their prefixes; it is removed before the document is assembled.
const flexMark = 0x01

func flex(l []byte) []byte { return append([]byte{flexMark}, l...) }

func flexAll(ls [][]byte) [][]byte {
	out := make([][]byte, len(ls))
	for i, l := range ls {
		out[i] = flex(l)
	}
	return out
}

func isFlex(l []byte) bool { return len(l) > 0 && l[0] == flexMark }

func unflex(l []byte) []byte {
	if isFlex(l) {
		return l[1:]
	}
	return l
}

// block generates one block: its source lines (without line endings) and its HTML.
// prevKind is the kind of the preceding sibling (-1 if none); tightPara: paragraph
// inside a tight list item (no <p>).
func (g *cgen) block(depth int, prevKind int, tightPara bool) (lines [][]byte, html []byte, kind int) {
	if !g.take() {
		// out of budget: a one-word paragraph
		w := g.word()
		if tightPara {
			return [][]byte{w}, w, bPara
		}
		return [][]byte{w}, append(append([]byte("<p>"), w...), "</p>"...), bPara
	}
	k := g.pick(bKinds)
	if (depth >= g.maxDepth || g.budget < 1) && (k == bQuote || k == bBullet || k == bOrdered) {
		k = bPara
	}
	if k == bIndented && (prevKind == bPara || prevKind == bBullet || prevKind == bOrdered || prevKind == bIndented || prevKind == -2) {
		// an indented block after a paragraph is a lazy continuation / list continuation
		k = bPara
	}
	if (k == bBullet || k == bOrdered) && (prevKind == bBullet || prevKind == bOrdered) {
		k = bPara // adjacent lists could merge
	}
	if tightPara {
		k = bPara
	}
	switch k {
	case bPara:
		md, h := g.inlines(0, true, false)
		lines = flexAll(splitLines(md))
		if tightPara {
			html = h
		} else {
			html = append(append(append(html, "<p>"...), h...), "</p>"...)
		}
	case bATX:
		lvl := 1 + g.pick(6)
		md, h := g.inlines(0, false, false)
		var l []byte
		for i := 0; i < lvl; i++ {
			l = append(l, '#')
		}
		l = append(append(l, ' '), md...)
		if !g.fmtSafe && g.rich && nondetBool() {
			l = append(l, " ##"...)
		}
		lines = [][]byte{flex(l)}
		tag := []byte{'h', byte('0' + lvl)}
		html = append(append(append(append(html, '<'), tag...), '>'), h...)
		html = append(append(append(html, "</"...), tag...), '>')
	case bSetext:
		lvl := 1 + g.pick(2)
		md, h := g.inlines(0, !g.fmtSafe, false)
		lines = flexAll(splitLines(md))
		ul := "==="
		if lvl == 2 {
			ul = "---"
		}
		if !g.fmtSafe && g.rich && nondetBool() {
			ul = " " + ul + "="[:2-lvl] + "-"[:lvl-1]
			lines = append(lines, []byte(ul))
		} else {
			lines = append(lines, flex([]byte(ul)))
		}
		tag := []byte{'h', byte('0' + lvl)}
		html = append(append(append(append(html, '<'), tag...), '>'), h...)
		html = append(append(append(html, "</"...), tag...), '>')
	case bHR:
		hrs := []string{"***", "___", "* * *", "---"}
		n := g.menu(len(hrs), 2)
		if prevKind == bPara && n > 3 {
			n = 3 // "---" under a paragraph would be a setext underline
		}
		if g.fmtSafe {
			lines = [][]byte{flex([]byte("***"))}
		} else {
			lines = [][]byte{flex([]byte(hrs[g.pick(n)]))}
		}
		html = append(html, "<hr>"...)
	case bFenced:
		ch := byte('`')
		if !g.fmtSafe && nondetBool() {
			ch = '~'
		}
		n := 3
		if !g.fmtSafe {
			n += g.pick(g.menu(3, 2))
		}
		var fence []byte
		for i := 0; i < n; i++ {
			fence = append(fence, ch)
		}
		open := append([]byte(nil), fence...)
		html = append(html, "<pre><code"...)
		if nondetBool() {
			info := g.word()
			open = append(open, info...)
			html = append(append(append(html, ` class="language-`...), info...), '"')
		}
		html = append(html, '>')
		lines = append(lines, open)
		// content: one line of two free bytes (no line ending), not a closing fence
		c0, c1 := nondetByte(), g.letter()
		assume(classOK(c0, 'X'))
		assume(c0 != ch) // cannot start a closing fence
		assume(vand(c0 != ' ', c0 != '\t'))
		assume(c0 != 0)
		assume(c0 != flexMark) // reserved by the serialiser (H_C06_verbatim covers every content byte)
		lines = append(lines, []byte{c0, c1})
		html = escText(html, c0)
		html = escText(html, c1)
		html = append(html, '\n')
		lines = append(lines, fence)
		html = append(html, "</code></pre>"...)
	case bIndented:
		c0, c1 := nondetByte(), g.letter()
		assume(classOK(c0, 'X'))
		assume(vand(c0 != ' ', c0 != '\t'))
		assume(c0 != 0)
		assume(c0 != flexMark) // reserved by the serialiser (H_C06_verbatim covers every content byte)
		lines = [][]byte{{' ', ' ', ' ', ' ', c0, c1}}
		html = append(html, "<pre><code>"...)
		html = escText(html, c0)
		html = escText(html, c1)
		html = append(html, "\n</code></pre>"...)
	case bQuote:
		listsBefore := g.nlists
		inner, h := g.blocks(depth+1, 2)
		// spelling of the marker on lines where extra indentation is insignificant
		// (one choice per quote): "> "; ">" + TAB (the tab supplies the optional space
		// plus at most three columns) followed at depth 0 by one more space; ">" + TAB;
		// ">" with no space.
		qv := 0
		if !g.fmtSafe {
			qv = g.pick(g.menu(4, 2))
			if g.nlists != listsBefore && (qv == 1 || qv == 2) {
				// a block following a list must not gain indentation (it would continue the item)
				qv = 0
			}
		}
		for _, l := range inner {
			switch {
			case len(l) == 0:
				lines = append(lines, []byte(">"))
			case isFlex(l) && qv == 1 && depth == 0:
				// column 0: the tab spans columns 1-3; with the extra space the content
				// has exactly three columns of indentation after the marker's own space
				lines = append(lines, append([]byte(">\t "), unflex(l)...))
			case isFlex(l) && (qv == 1 || qv == 2):
				lines = append(lines, append([]byte(">\t"), unflex(l)...))
			case isFlex(l) && qv == 3:
				lines = append(lines, append([]byte(">"), unflex(l)...))
			default:
				lines = append(lines, append([]byte("> "), unflex(l)...))
			}
		}
		html = append(append(append(html, "<blockquote>"...), h...), "</blockquote>"...)
	case bBullet, bOrdered:
		g.nlists++
		tight := nondetBool()
		nitems := 1
		if g.budget >= 2 {
			nitems += g.pick(2)
		}
		var marker []byte
		start := 1
		if k == bBullet {
			if g.fmtSafe {
				marker = []byte("-")
			} else {
				marker = []byte{"-+*"[g.pick(g.menu(3, 2))]}
			}
			html = append(html, "<ul>"...)
		} else {
			starts := []int{1, 0, 2, 9, 10, 123456789}
			start = starts[g.pick(g.menu(len(starts), 2))]
			delim := byte('.')
			if g.rich && nondetBool() {
				delim = ')'
			}
			marker = append([]byte(itoa(start)), delim)
			if start == 1 {
				html = append(html, "<ol>"...)
			} else {
				html = append(append(append(html, `<ol start="`...), itoa(start)...), `">`...)
			}
		}
		if nitems == 1 {
			tight = true // a single item with one child is tight by definition; keep it simple: force
		}
		for it := 0; it < nitems; it++ {
			pad := 1
			if !g.fmtSafe {
				pad += 2 * g.pick(2)
				if g.rich {
					pad = 1 + g.pick(4)
				}
			}
			var first, rest []byte
			m := marker
			if k == bOrdered && it > 0 {
				m = append([]byte(itoa(start+it)), marker[len(marker)-1])
			}
			first = append(first, m...)
			for i := 0; i < pad; i++ {
				first = append(first, ' ')
			}
			for i := 0; i < len(first); i++ {
				rest = append(rest, ' ')
			}
			var inner [][]byte
			var h []byte
			if tight {
				g.take()
				md, ph := g.inlines(0, true, false)
				inner, h = splitLines(md), ph
			} else {
				inner, h = g.blocks(depth+1, 2)
				// loose list: the first child must not be an indented code block (content column)
			}
			if it > 0 && !tight {
				lines = append(lines, nil)
			}
			for li, l := range inner {
				l = unflex(l)
				switch {
				case li == 0:
					lines = append(lines, append(append([]byte(nil), first...), l...))
				case len(l) == 0:
					lines = append(lines, nil)
				default:
					lines = append(lines, append(append([]byte(nil), rest...), l...))
				}
			}
			html = append(append(append(html, "<li>"...), h...), "</li>"...)
		}
		if k == bBullet {
			html = append(html, "</ul>"...)
		} else {
			html = append(html, "</ol>"...)
		}
		if !tight && nitems == 1 {
			// unreachable (forced tight above)
		}
	case bHTML:
		w := g.word()
		lines = [][]byte{[]byte("<div>"), w, []byte("</div>")}
		html = append(append(append(html, "<div>\n"...), w...), "\n</div>"...)
	case bRefDef:
		g.nrefs++
		label := []byte{'d', byte('a' + g.nrefs)}
		dest := append([]byte{'/'}, g.word()...)
		l := append(append(append([]byte{'['}, label...), "]: "...), dest...)
		if nondetBool() {
			l = append(append(append(l, ` "`...), g.word()...), '"')
		}
		lines = [][]byte{l}
	}
	return lines, html, k
}

// blocks generates 1..max sibling blocks separated by one blank line.
func (g *cgen) blocks(depth, max int) (lines [][]byte, html []byte) {
	prev := -1
	if depth > 0 {
		prev = -2 // first child of a container: an indented block would be ambiguous with the content column
	}
	for i := 0; i < max; i++ {
		if i > 0 && (g.budget <= 0 || !nondetBool()) {
			break
		}
		l, h, k := g.block(depth, prev, false)
		if i > 0 {
			lines = append(lines, nil)
		}
		lines = append(lines, l...)
		html = append(html, h...)
		prev = k
	}
	return
}

// document returns the serialised document and its expected HTML.
func (g *cgen) document(maxTop int) (doc, html []byte) {
	lines, html := g.blocks(0, maxTop)
	if len(g.refdefs) > 0 {
		lines = append(lines, nil)
		for _, d := range g.refdefs {
			lines = append(lines, d)
		}
	}
	eol := "\n"
	if g.crlf {
		eol = "\r\n"
	}
	// flexible top-level lines may carry up to three leading spaces (one choice per document)
	ind := 0
	if !g.fmtSafe && g.nlists == 0 {
		ind = g.pick(g.menu(4, 1))
	}
	for _, l := range lines {
		if isFlex(l) {
			for i := 0; i < ind; i++ {
				doc = append(doc, ' ')
			}
		}
		doc = append(doc, unflex(l)...)
		doc = append(doc, eol...)
	}
	return doc, html
}
