//go:build verif

package commonmark

import "io"

// ---------------------------------------------------------------- inputs

func nondetBytes(n int) []byte {
	b := make([]byte, n)
	for i := range b {
		b[i] = nondetByte()
	}
	return b
}

// tmplBytes expands a template: literal bytes are concrete, "\xff<class>" is one
// symbolic byte of that class, "\xfe<chars>\xfe" one symbolic byte from the set.
func tmplBytes(t string) []byte {
	var out []byte
	for i := 0; i < len(t); i++ {
		switch t[i] {
		case 0xff:
			i++
			b := nondetByte()
			assume(classOK(b, t[i]))
			out = append(out, b)
		case 0xfe:
			j := i + 1
			for t[j] != 0xfe {
				j++
			}
			set := t[i+1 : j]
			b := nondetByte()
			ok := false
			for k := 0; k < len(set); k++ {
				ok = vor(ok, b == set[k])
			}
			assume(ok)
			out = append(out, b)
			i = j
		default:
			out = append(out, t[i])
		}
	}
	return out
}

// tmplEOL rewrites the literal line endings of a template: mode 1 turns every
// literal LF into CRLF, mode 2 into a bare CR (class codes and byte sets are kept).
func tmplEOL(t string, mode int) string {
	if mode == 0 {
		return t
	}
	var out []byte
	for i := 0; i < len(t); i++ {
		switch t[i] {
		case 0xff:
			out = append(out, t[i], t[i+1])
			i++
		case 0xfe:
			j := i + 1
			for t[j] != 0xfe {
				j++
			}
			out = append(out, t[i:j+1]...)
			i = j
		case '\n':
			if mode == 1 {
				out = append(out, '\r', '\n')
			} else {
				out = append(out, '\r')
			}
		default:
			out = append(out, t[i])
		}
	}
	return string(out)
}

// ---------------------------------------------------------------- readers / writers

// oneShotReader returns all data in one Read, then io.EOF.
type oneShotReader struct {
	data []byte
	done bool
}

func (r *oneShotReader) Read(p []byte) (int, error) {
	if r.done || len(r.data) == 0 {
		return 0, io.EOF
	}
	n := copy(p, r.data)
	r.data = r.data[n:]
	if len(r.data) == 0 {
		r.done = true
	}
	return n, nil
}

// parseStream reads all root blocks through the streaming entry point and rewrites
// inlines like Parse does. It returns the blocks, the reference map and the
// terminal error.
func parseStream(r io.Reader) ([]*RootBlock, ReferenceMap, error) {
	p := NewBlockParser(r)
	refs := make(ReferenceMap)
	var blocks []*RootBlock
	for {
		b, err := p.NextBlock()
		if err != nil {
			ip := &InlineParser{ReferenceMatcher: refs}
			for _, blk := range blocks {
				ip.Rewrite(blk)
			}
			return blocks, refs, err
		}
		blocks = append(blocks, b)
		refs.Extract(b.Source, b.AsNode())
	}
}

type sliceWriter struct{ b []byte }

func (w *sliceWriter) Write(p []byte) (int, error) {
	w.b = append(w.b, p...)
	return len(p), nil
}

func renderWith(r *HTMLRenderer, blocks []*RootBlock) []byte {
	var out []byte
	for i, b := range blocks {
		if i > 0 {
			out = append(out, "\n\n"...)
		}
		out = r.AppendBlock(out, b)
	}
	return out
}

// ---------------------------------------------------------------- names

var blockKindNames = [...]string{"0", "Paragraph", "ThematicBreak", "ATXHeading", "SetextHeading", "IndentedCodeBlock", "FencedCodeBlock",
	"HTMLBlock", "LinkReferenceDefinition", "BlockQuote", "ListItem", "List", "ListMarker", "document"}

var inlineKindNames = [...]string{"0", "Text", "SoftLineBreak", "HardLineBreak", "Indent", "CharacterReference", "InfoString", "Emphasis",
	"Strong", "Link", "Image", "LinkDestination", "LinkTitle", "LinkLabel", "CodeSpan", "Autolink", "HTMLTag", "RawHTML", "Unparsed"}

func kindName(n Node) string {
	if b := n.Block(); b != nil {
		if int(b.Kind()) < len(blockKindNames) {
			return blockKindNames[b.Kind()]
		}
		return "block?"
	}
	if i := n.Inline(); i != nil {
		if int(i.Kind()) < len(inlineKindNames) {
			return inlineKindNames[i.Kind()]
		}
		return "inline?"
	}
	return "nil"
}

// dumpTree appends a canonical description of the tree below n (kinds, spans,
// accessors) to dst; used for digests and for tree equality.
func dumpTree(dst []byte, src []byte, n Node) []byte {
	dst = append(dst, '(')
	dst = append(dst, kindName(n)...)
	sp := n.Span()
	dst = append(dst, ' ')
	dst = append(dst, itoa(sp.Start)...)
	dst = append(dst, ',')
	dst = append(dst, itoa(sp.End)...)
	if b := n.Block(); b != nil {
		dst = append(dst, " h"...)
		dst = append(dst, itoa(b.HeadingLevel())...)
		if b.IsOrderedList() {
			dst = append(dst, 'o')
		}
		if b.IsTightList() {
			dst = append(dst, 't')
		}
		if b.Kind() == ListItemKind && sp.IsValid() && sp.End <= len(src) {
			dst = append(dst, " n"...)
			dst = append(dst, itoa(b.ListItemNumber(src))...)
		}
	} else if in := n.Inline(); in != nil {
		if w := in.IndentWidth(); w != 0 {
			dst = append(dst, " w"...)
			dst = append(dst, itoa(w)...)
		}
		if r := in.LinkReference(); r != "" {
			dst = append(dst, " r="...)
			dst = append(dst, r...)
		}
	}
	for i := 0; i < n.ChildCount(); i++ {
		dst = dumpTree(dst, src, n.Child(i))
	}
	return append(dst, ')')
}

func dumpBlocks(blocks []*RootBlock) []byte {
	var d []byte
	for _, b := range blocks {
		d = append(d, '{')
		d = append(d, itoa(int(b.StartOffset))...)
		d = append(d, '-')
		d = append(d, itoa(int(b.EndOffset))...)
		d = append(d, '@')
		d = append(d, itoa(b.StartLine)...)
		d = append(d, ' ')
		d = dumpTree(d, b.Source, b.AsNode())
		d = append(d, '}')
	}
	return d
}
