//go:build verif

package commonmark

// Unit harness of C15 (names unexported identifiers of the library; if it stops
// type-checking against the working tree it is skipped, see DESIGN.md §13.2).

func H_C15_atx(n, _ int) {
	line, body := nondetLine(n)
	if body > 0 {
		assume(!isST(line[0]))
	}
	wl, ws, we := refATX(line[:body])
	h := parseATXHeading(line)
	check(h.level == wl, "C15.atx.level")
	if wl > 0 && h.level == wl {
		check(h.content.End-h.content.Start == we-ws, "C15.atx.content-length")
		if we > ws {
			check(h.content.Start == ws, "C15.atx.content-start")
		}
	}
}
