//go:build verif

package commonmark

import (
	"encoding/json"
	"fmt"
	"os"
	"testing"
	"time"
)

type vReplayCase struct {
	Harness string   `json:"harness"`
	Params  []int    `json:"params"`
	Model   []uint64 `json:"model"`
}

type vReplayResult struct {
	Outcome string   `json:"outcome"`
	Detail  string   `json:"detail"`
	Failed  []string `json:"failed"`
	Digest  []byte   `json:"digest"`
	Notes   []string `json:"notes"`
}

func vRunCase(c vReplayCase) (res vReplayResult) {
	f, ok := vRegistry[c.Harness]
	if !ok {
		return vReplayResult{Outcome: "no-harness"}
	}
	vreset(c.Model)
	defer func() {
		res.Failed, res.Digest, res.Notes = vst.failed, vst.digest, vst.notes
		if r := recover(); r != nil {
			if _, ok := r.(vAssumeFailed); ok {
				res.Outcome = "assume"
				return
			}
			res.Outcome = "panic"
			res.Detail = fmt.Sprint(r)
		}
	}()
	p := append(append([]int(nil), c.Params...), 0, 0)
	f(p[0], p[1])
	res.Outcome = "ok"
	return
}

func TestVerifReplay(t *testing.T) {
	in, out := os.Getenv("VERIF_REPLAY"), os.Getenv("VERIF_REPLAY_OUT")
	if in == "" {
		t.Skip("VERIF_REPLAY not set")
	}
	data, err := os.ReadFile(in)
	if err != nil {
		t.Fatal(err)
	}
	var cases []vReplayCase
	if err := json.Unmarshal(data, &cases); err != nil {
		t.Fatal(err)
	}
	results := make([]vReplayResult, len(cases))
	for i, c := range cases {
		done := make(chan vReplayResult, 1)
		go func() { done <- vRunCase(c) }()
		select {
		case r := <-done:
			results[i] = r
		case <-time.After(20 * time.Second):
			results[i] = vReplayResult{Outcome: "timeout"}
			// the goroutine cannot be stopped: flush what we have and exit
			for j := i + 1; j < len(cases); j++ {
				results[j] = vReplayResult{Outcome: "not-run"}
			}
			b, _ := json.Marshal(results)
			os.WriteFile(out, b, 0o644)
			os.Exit(0)
		}
	}
	b, _ := json.Marshal(results)
	if err := os.WriteFile(out, b, 0o644); err != nil {
		t.Fatal(err)
	}
}
