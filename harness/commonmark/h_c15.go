//go:build verif

package commonmark

// C15 — line-level recognizers and byte classifiers match the spec's definitions.
// The reference recognisers below are transcribed from the CommonMark 0.30 text
// (regular definitions, scanned left to right); they share no code with the
// implementation.

// ---------------------------------------------------------------- classifiers (all 256 bytes)


// ---------------------------------------------------------------- lines

// nondetLine returns n body bytes (no LF/CR) followed by one of "", LF, CR, CRLF.
func nondetLine(n int) (line []byte, body int) {
	line = make([]byte, 0, n+2)
	for i := 0; i < n; i++ {
		b := nondetByte()
		assume(classOK(b, 'X'))
		line = append(line, b)
	}
	switch nondetInt(0, 3) {
	case 1:
		line = append(line, '\n')
	case 2:
		line = append(line, '\r')
	case 3:
		line = append(line, '\r', '\n')
	}
	return line, n
}

func isST(b byte) bool { return b == ' ' || b == '\t' }

// refThematicBreak: three or more matching -, _ or *, each optionally followed by
// spaces or tabs; nothing else on the line. Returns index after the last marker or -1.
func refThematicBreak(body []byte) int {
	if len(body) == 0 {
		return -1
	}
	c := body[0]
	if c != '-' && c != '_' && c != '*' {
		return -1
	}
	cnt, last := 0, -1
	for i := 0; i < len(body); i++ {
		switch {
		case body[i] == c:
			cnt++
			last = i
		case isST(body[i]):
		default:
			return -1
		}
	}
	if cnt < 3 {
		return -1
	}
	return last + 1
}


// refATX returns level (0 if not a heading) and the content as [start,end).
func refATX(body []byte) (level, start, end int) {
	for level < len(body) && body[level] == '#' {
		level++
	}
	if level == 0 || level > 6 {
		return 0, 0, 0
	}
	if level == len(body) {
		return level, level, level
	}
	if !isST(body[level]) {
		return 0, 0, 0
	}
	// raw content after the opening sequence
	s, e := level, len(body)
	// trailing spaces/tabs
	for e > s && isST(body[e-1]) {
		e--
	}
	// optional closing sequence: a run of # preceded by a space or tab
	k := e
	for k > s && body[k-1] == '#' {
		k--
	}
	if k < e && k > s && isST(body[k-1]) {
		e = k
		for e > s && isST(body[e-1]) {
			e--
		}
	}
	for s < e && isST(body[s]) {
		s++
	}
	return level, s, e
}


func refSetext(body []byte) int {
	if len(body) == 0 {
		return 0
	}
	c := body[0]
	level := 0
	switch c {
	case '=':
		level = 1
	case '-':
		level = 2
	default:
		return 0
	}
	i := 0
	for i < len(body) && body[i] == c {
		i++
	}
	for ; i < len(body); i++ {
		if !isST(body[i]) {
			return 0
		}
	}
	return level
}


// refFence returns fence char (0 if none), length, and info string span (s==e if empty).
func refFence(body []byte) (c byte, n, s, e int) {
	if len(body) == 0 || (body[0] != '`' && body[0] != '~') {
		return 0, 0, 0, 0
	}
	c = body[0]
	for n < len(body) && body[n] == c {
		n++
	}
	if n < 3 {
		return 0, 0, 0, 0
	}
	s, e = n, len(body)
	for s < e && isST(body[s]) {
		s++
	}
	for e > s && isST(body[e-1]) {
		e--
	}
	if c == '`' {
		for i := s; i < e; i++ {
			if body[i] == '`' {
				return 0, 0, 0, 0
			}
		}
	}
	return c, n, s, e
}


// refMarker: bullet -,+,* or 1-9 digits followed by . or ), then space, tab or end of line.
func refMarker(line []byte) (end int, delim byte, num int) {
	if len(line) == 0 {
		return -1, 0, 0
	}
	follows := func(i int) bool {
		return i >= len(line) || line[i] == ' ' || line[i] == '\t' || line[i] == '\n' || line[i] == '\r'
	}
	if line[0] == '-' || line[0] == '+' || line[0] == '*' {
		if follows(1) {
			return 1, line[0], 0
		}
		return -1, 0, 0
	}
	k := 0
	for k < len(line) && k < 10 && '0' <= line[k] && line[k] <= '9' {
		k++
	}
	if k == 0 || k > 9 || k >= len(line) || (line[k] != '.' && line[k] != ')') || !follows(k+1) {
		return -1, 0, 0
	}
	// value by positional weights (most significant digit first)
	weight := 1
	for i := k - 1; i >= 0; i-- {
		num += int(line[i]-'0') * weight
		weight *= 10
	}
	return k + 1, line[k], num
}


// ---------------------------------------------------------------- through the public API

// H_C15_api: a one-line document; the kind/level/content of the first block must
// be what the reference recognisers predict (survives renaming of the unexported
// functions). Lines that the references classify as none of the five constructs
// are only required not to yield those kinds... (kept to the positive direction).
func H_C15_api(n, _ int) {
	line, body := nondetLine(n)
	if body > 0 {
		assume(!isST(line[0]))
	}
	assume(body > 0)
	for _, b := range line[:body] {
		assume(b != 0) // NUL expands to U+FFFD in Source; lengths below are compared on the raw line
	}
	doc := cloneBytes(line)
	blocks, _ := Parse(doc)
	lvl, cs, ce := refATX(line[:body])
	tb := refThematicBreak(line[:body])
	fc, fn, _, _ := refFence(line[:body])
	me, _, _ := refMarker(line)
	switch {
	case tb >= 0:
		check(len(blocks) == 1 && blocks[0].Kind() == ThematicBreakKind, "C15.api.thematic")
	case lvl > 0:
		ok := len(blocks) == 1 && blocks[0].Kind() == ATXHeadingKind && blocks[0].HeadingLevel() == lvl
		check(ok, "C15.api.atx")
		if ok {
			// the content range the block parser records (the heading's single unparsed
			// child, before inline parsing - inline nodes do not tile the content: the
			// backslash of an escape belongs to no node) is exactly the reference's content
			bp := NewBlockParser(&oneShotReader{data: cloneBytes(line)})
			rb, err := bp.NextBlock()
			okc := err == nil && rb != nil && rb.Kind() == ATXHeadingKind
			if okc {
				lo, hi := cs, cs // an empty content may be recorded as no child at all
				if rb.ChildCount() > 0 {
					lo, hi = rb.Child(0).Span().Start, rb.Child(rb.ChildCount()-1).Span().End
				}
				okc = hi-lo == ce-cs && (ce == cs || lo == cs)
			}
			check(okc, "C15.api.atx-content")
		}
	case fn > 0:
		_ = fc
		check(len(blocks) == 1 && blocks[0].Kind() == FencedCodeBlockKind, "C15.api.fence")
	case me > 0:
		check(len(blocks) == 1 && blocks[0].Kind() == ListKind, "C15.api.list")
	default:
		if len(blocks) == 1 {
			k := blocks[0].Kind()
			check(k != ThematicBreakKind && k != ATXHeadingKind && k != FencedCodeBlockKind && k != ListKind, "C15.api.negative")
		}
	}
}

// ---------------------------------------------------------------- NormalizeURI

func isUnreservedOrReserved(c byte) bool {
	alnum := vor(vor(vand('a' <= c, c <= 'z'), vand('A' <= c, c <= 'Z')), vand('0' <= c, c <= '9'))
	// RFC 3986: unreserved -._~ ; gen-delims :/?#[]@ ; sub-delims !$&'()*+,;=
	other := false
	const set = "-._~:/?#[]@!$&'()*+,;="
	for i := 0; i < len(set); i++ {
		other = vor(other, c == set[i])
	}
	return vor(alnum, other)
}

func isHexRef(c byte) bool {
	return vor(vand('0' <= c, c <= '9'), vor(vand('a' <= c, c <= 'f'), vand('A' <= c, c <= 'F')))
}

func H_C15_uri(n, _ int) {
	in := nondetBytes(n)
	out := NormalizeURI(string(in))
	for i := 0; i < len(out); i++ {
		c := out[i]
		if c == '%' {
			if i+2 >= len(out) {
				check(false, "C15.uri.escape-truncated")
			} else {
				check(vand(isHexRef(out[i+1]), isHexRef(out[i+2])), "C15.uri.escape-hex")
			}
		} else {
			check(isUnreservedOrReserved(c), "C15.uri.charset")
		}
	}
	again := NormalizeURI(out)
	check(vsame([]byte(again), []byte(out)), "C15.uri.idempotent")
	vdigest([]byte(out))
}

// ---------------------------------------------------------------- e-mail

func isAlnum(c byte) bool {
	return 'a' <= c && c <= 'z' || 'A' <= c && c <= 'Z' || '0' <= c && c <= '9'
}

// refEmail matches the spec's regular expression
// ^[a-zA-Z0-9.!#$%&'*+/=?^_`{|}~-]+@[a-zA-Z0-9](?:[a-zA-Z0-9-]{0,61}[a-zA-Z0-9])?(?:\.[a-zA-Z0-9](?:[a-zA-Z0-9-]{0,61}[a-zA-Z0-9])?)*$
func refEmail(s []byte) bool {
	const local = ".!#$%&'*+/=?^_`{|}~-"
	i := 0
	for i < len(s) {
		c := s[i]
		ok := isAlnum(c)
		for k := 0; k < len(local) && !ok; k++ {
			ok = c == local[k]
		}
		if !ok {
			break
		}
		i++
	}
	if i == 0 || i >= len(s) || s[i] != '@' {
		return false
	}
	i++
	for {
		// one label
		st := i
		for i < len(s) && (isAlnum(s[i]) || s[i] == '-') {
			i++
		}
		l := i - st
		if l < 1 || l > 63 || !isAlnum(s[st]) || !isAlnum(s[i-1]) {
			return false
		}
		if i == len(s) {
			return true
		}
		if s[i] != '.' {
			return false
		}
		i++
	}
}

func H_C15_email(n, _ int) {
	in := nondetBytes(n)
	check(IsEmailAddress(string(in)) == refEmail(in), "C15.email")
}

// long labels: a@ + 'a' x k + two free bytes from the label alphabet
func H_C15_email_label(k, _ int) {
	s := []byte("a@")
	for i := 0; i < k; i++ {
		s = append(s, 'a')
	}
	for i := 0; i < 2; i++ {
		b := nondetByte()
		assume(vor(vor(isL(b), isD(b)), vor(b == '-', b == '.')))
		s = append(s, b)
	}
	check(IsEmailAddress(string(s)) == refEmail(s), "C15.email.label-length")
}
