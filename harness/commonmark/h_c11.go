//go:build verif

package commonmark

// C11 — emphasis resolution follows the spec's delimiter-run algorithm.
// The input is a sequence of units; the class of each unit is concrete on a path,
// the bytes of letter/punctuation units are symbolic within their class. The
// reference is a transcription of CommonMark 0.30's "process emphasis" procedure
// WITHOUT the openers_bottom optimisation, driven by unit classes only.

const (
	uStar = iota
	uUnder
	uWord  // ASCII letter or digit (symbolic)
	uSpace // ' '
	uPunct // ASCII punctuation that is not special to inline parsing (symbolic)
	uNBSP  // U+00A0, Unicode whitespace (Zs)
	uDash  // U+2014 EM DASH, Unicode punctuation (Pd)
	uEAcute // U+00E9, a non-ASCII letter
	uLatin1 // any of U+0080..U+00FF (symbolic): control, whitespace, punctuation, symbol or letter
	uClasses
)

type c11Unit struct {
	class int
	bytes []byte
}

// c11IsWS / c11IsPunct: Unicode whitespace (Zs, tab, line endings, form feed) and
// punctuation (ASCII punctuation or general category P*) in the sense of CommonMark
// 0.30 section 2.1, per unit. For a uLatin1 unit the decision is made on its
// (symbolic) bytes: in U+0080..U+00FF only U+00A0 is Zs (U+0085 is Cc), and the P* characters are
// U+00A1 U+00A7 U+00AB U+00B6 U+00B7 U+00BB U+00BF (the rest are symbols, letters,
// digits or format characters).
func c11IsWS(u c11Unit) bool {
	if u.class == uLatin1 {
		return vand(u.bytes[0] == 0xC2, u.bytes[1] == 0xA0)
	}
	return u.class == uSpace || u.class == uNBSP
}

func c11IsPunct(u c11Unit) bool {
	if u.class == uLatin1 {
		b := u.bytes[1]
		p := vor(b == 0xA1, vor(b == 0xA7, vor(b == 0xAB, vor(b == 0xB6, vor(b == 0xB7, vor(b == 0xBB, b == 0xBF))))))
		return vand(u.bytes[0] == 0xC2, p)
	}
	c := u.class
	return c == uStar || c == uUnder || c == uPunct || c == uDash
}

type c11Tok struct {
	text     []byte
	delim    byte
	n, orig  int
	open     bool
	close    bool
	kind     string
	children []*c11Tok
}

func c11Ref(units []c11Unit) []byte {
	var toks []*c11Tok
	i := 0
	for i < len(units) {
		c := units[i].class
		if c == uStar || c == uUnder {
			j := i
			for j < len(units) && units[j].class == c {
				j++
			}
			// beginning and end of the line count as Unicode whitespace
			prevWS, prevP, nextWS, nextP := true, false, true, false
			if i > 0 {
				prevWS, prevP = c11IsWS(units[i-1]), c11IsPunct(units[i-1])
			}
			if j < len(units) {
				nextWS, nextP = c11IsWS(units[j]), c11IsPunct(units[j])
			}
			lf := !nextWS && (!nextP || prevWS || prevP)
			rf := !prevWS && (!prevP || nextWS || nextP)
			t := &c11Tok{n: j - i, orig: j - i}
			if c == uStar {
				t.delim = '*'
				t.open, t.close = lf, rf
			} else {
				t.delim = '_'
				t.open = lf && (!rf || prevP)
				t.close = rf && (!lf || nextP)
			}
			toks = append(toks, t)
			i = j
		} else {
			t := &c11Tok{}
			for i < len(units) && units[i].class != uStar && units[i].class != uUnder {
				t.text = append(t.text, units[i].bytes...)
				i++
			}
			toks = append(toks, t)
		}
	}
	nodes := toks
	idx := func(t *c11Tok) int {
		for k, x := range nodes {
			if x == t {
				return k
			}
		}
		return -1
	}
	var stack []*c11Tok
	for _, t := range toks {
		if t.delim != 0 {
			stack = append(stack, t)
		}
	}
	cur := 0
	for cur < len(stack) {
		c := stack[cur]
		if !c.close {
			cur++
			continue
		}
		found := -1
		for k := cur - 1; k >= 0; k-- {
			o := stack[k]
			if o.delim != c.delim || !o.open {
				continue
			}
			if (o.close || c.open) && (o.orig+c.orig)%3 == 0 && !(o.orig%3 == 0 && c.orig%3 == 0) {
				continue
			}
			found = k
			break
		}
		if found < 0 {
			if !c.open {
				stack = append(stack[:cur], stack[cur+1:]...)
			} else {
				cur++
			}
			continue
		}
		o := stack[found]
		use, kind := 1, "em"
		if o.n >= 2 && c.n >= 2 {
			use, kind = 2, "strong"
		}
		oi, ci := idx(o), idx(c)
		wrapped := &c11Tok{kind: kind, children: append([]*c11Tok(nil), nodes[oi+1:ci]...)}
		nn := append([]*c11Tok(nil), nodes[:oi+1]...)
		nn = append(nn, wrapped)
		nn = append(nn, nodes[ci:]...)
		nodes = nn
		o.n -= use
		c.n -= use
		stack = append(stack[:found+1], stack[cur:]...)
		cur = found + 1
		if o.n == 0 {
			k := idx(o)
			nodes = append(nodes[:k], nodes[k+1:]...)
			stack = append(stack[:found], stack[found+1:]...)
			cur--
		}
		if c.n == 0 {
			k := idx(c)
			nodes = append(nodes[:k], nodes[k+1:]...)
			stack = append(stack[:cur], stack[cur+1:]...)
		}
	}
	var out []byte
	var emit func(ts []*c11Tok)
	emit = func(ts []*c11Tok) {
		for _, t := range ts {
			switch {
			case t.kind != "":
				out = append(out, '<')
				out = append(out, t.kind...)
				out = append(out, '>')
				emit(t.children)
				out = append(out, "</"...)
				out = append(out, t.kind...)
				out = append(out, '>')
			case t.delim != 0:
				for k := 0; k < t.n; k++ {
					out = append(out, t.delim)
				}
			default:
				out = append(out, t.text...)
			}
		}
	}
	emit(nodes)
	return out
}

const c11PunctSet = "#$%()+,-./:;=?@^{|}~"

// alphabet 20 of H_C11: delimiters, letters, spaces and an arbitrary character of the
// Latin-1 supplement
var c11Alpha20 = []int{uStar, uUnder, uWord, uSpace, uLatin1}

// H_C11(n, nclasses): n units over the first nclasses classes (5 = ASCII only, 8 = with
// three fixed non-ASCII characters); nclasses 20 selects c11Alpha20.
func H_C11(n, nclasses int) {
	units := make([]c11Unit, n)
	var s []byte
	for i := range units {
		var c int
		if nclasses == 20 {
			c = c11Alpha20[vconcrete(nondetInt(0, len(c11Alpha20)-1))]
		} else {
			c = vconcrete(nondetInt(0, nclasses-1))
		}
		u := c11Unit{class: c}
		switch c {
		case uStar:
			u.bytes = []byte{'*'}
		case uUnder:
			u.bytes = []byte{'_'}
		case uWord:
			b := nondetByte()
			assume(vor(isL(b), isD(b)))
			u.bytes = []byte{b}
		case uSpace:
			u.bytes = []byte{' '}
		case uPunct:
			u.bytes = tmplBytes("\xfe" + c11PunctSet + "\xfe")
		case uNBSP:
			u.bytes = []byte{0xC2, 0xA0}
		case uDash:
			u.bytes = []byte{0xE2, 0x80, 0x94}
		case uEAcute:
			u.bytes = []byte{0xC3, 0xA9}
		case uLatin1:
			b0, b1 := nondetByte(), nondetByte()
			assume(vor(vand(b0 == 0xC2, vand(b1 >= 0x80, b1 <= 0xBF)), vand(b0 == 0xC3, vand(b1 >= 0x80, b1 <= 0xBF))))
			u.bytes = []byte{b0, b1}
		}
		units[i] = u
		s = append(s, u.bytes...)
	}
	// the paragraph's own leading/trailing spaces are not part of the inline content
	lo, hi := 0, n
	for lo < hi && units[lo].class == uSpace {
		lo++
	}
	for hi > lo && units[hi-1].class == uSpace {
		hi--
	}
	assume(lo < hi)
	blocks, refs := Parse(cloneBytes(s))
	assume(len(blocks) == 1 && blocks[0].Kind() == ParagraphKind)
	got := renderWith(&HTMLRenderer{ReferenceMap: refs}, blocks)
	// strip <p>, </p> and edge spaces
	if len(got) >= 7 {
		got = got[3 : len(got)-4]
	}
	a, b := 0, len(got)
	for a < b && got[a] == ' ' {
		a++
	}
	for b > a && got[b-1] == ' ' {
		b--
	}
	got = got[a:b]
	want := c11Ref(units[lo:hi])
	check(vsame(got, want), "C11.structure")
	vdigest(got)
}
