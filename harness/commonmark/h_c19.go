//go:build verif

package commonmark

// C19 — parsing and rendering share no mutable state.
// Interleavings are not explored. The schedule quantifier is discharged by a
// non-interference argument whose premise is established symbolically for every
// input in the bound: after vfreeze() every object that already exists (the tree,
// Source, the reference map, the renderer value, all package-level tables) is
// read-only for the engine; any store into such an object on any feasible path is
// reported (clause frozen-write), except inside sync.Once bodies.

func H_C19(kind, a int) {
	in := treeInput(kind, a)
	blocks, refs := Parse(in)
	renderers := []*HTMLRenderer{}
	for soft := SoftBreakPreserve; soft <= SoftBreakHarden; soft++ {
		for raw := 0; raw < 2; raw++ {
			renderers = append(renderers,
				&HTMLRenderer{ReferenceMap: refs, SoftBreakBehavior: soft, IgnoreRaw: raw == 1},
				&HTMLRenderer{ReferenceMap: refs, SoftBreakBehavior: soft, IgnoreRaw: raw == 1, FilterTag: FilterTagGFM})
		}
	}
	vfreeze()
	var first []byte
	for i, r := range renderers {
		out := renderWith(r, blocks)
		// the same renderer value used twice gives the same bytes
		check(vsame(renderWith(r, blocks), out), "C19.render-repeatable")
		if i == 0 {
			first = out
		}
	}
	visits := 0
	for _, b := range blocks {
		Walk(b.AsNode(), &WalkOptions{Pre: func(c *Cursor) bool { visits++; return true }})
	}
	vunfreeze()
	vdigest(first)
}

// H_C19_parse: parsing one input does not affect parsing another; no Parse call
// writes to state that exists before it starts (package-level state in particular).
func H_C19_parse(n1, n2 int) {
	in1 := nondetBytes(n1)
	in2 := nondetBytes(n2)
	vfreeze()
	a := dumpBlocks(firstOf(Parse(cloneBytes(in2))))
	Parse(cloneBytes(in1))
	b := dumpBlocks(firstOf(Parse(cloneBytes(in2))))
	vunfreeze()
	check(vsame(a, b), "C19.parse-independent")
	vdigest(a)
}

func firstOf(b []*RootBlock, _ ReferenceMap) []*RootBlock { return b }

// H_C19_parse_refs(_, _): two documents with reference definitions and uses (label
// letters free): parsing one between two parses of the other changes nothing, and no
// Parse call writes to package-level state (label normalisation in particular).
func H_C19_parse_refs(_, _ int) {
	in1 := tmplBytes("[" + hL + "b]: /c\n\n[" + hL + "B] [x][" + hL + "b]")
	in2 := tmplBytes("[" + hL + "]: /d 't'\n\n![" + hL + "][]")
	vfreeze()
	a := dumpBlocks(firstOf(Parse(cloneBytes(in2))))
	Parse(cloneBytes(in1))
	b := dumpBlocks(firstOf(Parse(cloneBytes(in2))))
	vunfreeze()
	check(vsame(a, b), "C19.parse-independent")
	vdigest(a)
}

// H_C19_reentrant(d, _): overlapping use of one tree without goroutines. After a walk
// that was cut short (Post returned false), walk A runs over document d; at a
// solver-chosen callback of A a complete walk B and a complete render of the same
// tree run inside the callback (a sequential stand-in for "at the same time": any
// state shared between calls - pooled scratch space, package-level buffers, memoised
// fields - is used by two calls at once). A must visit exactly the nodes a plain
// recursion visits, and a render whose FilterTag callback starts a nested render must
// produce the bytes of an undisturbed render.
func H_C19_reentrant(d, _ int) {
	blocks, refs := Parse([]byte(c18Docs[d]))
	root := blocks[0].AsNode()
	// reference pre-order
	var want []Node
	var rec func(n Node)
	rec = func(n Node) {
		want = append(want, n)
		for i := 0; i < n.ChildCount(); i++ {
			rec(n.Child(i))
		}
	}
	rec(root)
	// a walk that is aborted at its first Post
	Walk(root, &WalkOptions{Post: func(c *Cursor) bool { return false }})
	at := vconcrete(nondetInt(0, len(want)-1))
	var got []Node
	inner := 0
	Walk(root, &WalkOptions{
		Pre: func(c *Cursor) bool {
			if len(got) == at {
				Walk(root, &WalkOptions{Pre: func(c *Cursor) bool { inner++; return true }})
				renderWith(&HTMLRenderer{ReferenceMap: refs, FilterTag: FilterTagGFM}, blocks)
			}
			got = append(got, c.Node())
			return true
		},
		Post: func(c *Cursor) bool { return true },
	})
	ok := len(got) == len(want) && inner == len(want)
	if ok {
		for i := range got {
			ok = ok && got[i] == want[i]
		}
	}
	check(ok, "C19.reentrant-walk")
	// nested render from inside the FilterTag callback of an outer render
	plain := renderWith(&HTMLRenderer{ReferenceMap: refs, FilterTag: FilterTagGFM}, blocks)
	calls := 0
	outer := &HTMLRenderer{ReferenceMap: refs}
	outer.FilterTag = func(tag []byte) bool {
		name := string(tag) // the callback's view of the name must survive the nested call
		calls++
		if calls == 1 {
			renderWith(&HTMLRenderer{ReferenceMap: refs, FilterTag: FilterTagGFM}, blocks)
		}
		return FilterTagGFM([]byte(name)) && FilterTagGFM(tag)
	}
	check(vsame(renderWith(outer, blocks), plain), "C19.reentrant-render")
	vdigest(plain)
}
