//go:build verif

package commonmark

// C19 — parsing and rendering share no mutable state.
// Interleavings are not explored. The schedule quantifier is discharged by a
// non-interference argument whose premise is established symbolically for every
// input in the bound: after vfreeze() every object that already exists (the tree,
// Source, the reference map, the renderer value, all package-level tables) is
// read-only for the engine; any store into such an object on any feasible path is
// reported (clause frozen-write), except inside sync.Once bodies.

func H_C19(kind, a int) {
	in := treeInput(kind, a)
	blocks, refs := Parse(in)
	renderers := []*HTMLRenderer{}
	for soft := SoftBreakPreserve; soft <= SoftBreakHarden; soft++ {
		for raw := 0; raw < 2; raw++ {
			renderers = append(renderers,
				&HTMLRenderer{ReferenceMap: refs, SoftBreakBehavior: soft, IgnoreRaw: raw == 1},
				&HTMLRenderer{ReferenceMap: refs, SoftBreakBehavior: soft, IgnoreRaw: raw == 1, FilterTag: FilterTagGFM})
		}
	}
	vfreeze()
	var first []byte
	for i, r := range renderers {
		out := renderWith(r, blocks)
		// the same renderer value used twice gives the same bytes
		check(vsame(renderWith(r, blocks), out), "C19.render-repeatable")
		if i == 0 {
			first = out
		}
	}
	visits := 0
	for _, b := range blocks {
		Walk(b.AsNode(), &WalkOptions{Pre: func(c *Cursor) bool { visits++; return true }})
	}
	vunfreeze()
	vdigest(first)
}

// H_C19_parse: parsing one input does not affect parsing another; no Parse call
// writes to state that exists before it starts (package-level state in particular).
func H_C19_parse(n1, n2 int) {
	in1 := nondetBytes(n1)
	in2 := nondetBytes(n2)
	vfreeze()
	a := dumpBlocks(firstOf(Parse(cloneBytes(in2))))
	Parse(cloneBytes(in1))
	b := dumpBlocks(firstOf(Parse(cloneBytes(in2))))
	vunfreeze()
	check(vsame(a, b), "C19.parse-independent")
	vdigest(a)
}

func firstOf(b []*RootBlock, _ ReferenceMap) []*RootBlock { return b }
