//go:build verif

package commonmark

import "io"

// C04 — parsing, rendering and walking are total. The deciding facts come from the
// engine: a panic or an exhausted step budget on any feasible path is a violation
// (clauses C04.no-panic / C04.terminates); the clauses below cover the error values.

// byteReader delivers one byte per Read.
type byteReader struct {
	data []byte
	pos  int
}

func (r *byteReader) Read(p []byte) (int, error) {
	if r.pos >= len(r.data) {
		return 0, io.EOF
	}
	if len(p) == 0 {
		return 0, nil
	}
	p[0] = r.data[r.pos]
	r.pos++
	return 1, nil
}

var c04Templates = []string{
	"`" + hA + hA,             // 0 unterminated code span
	"``" + hA + hA,            // 1
	"<!--" + hA + hA,          // 2
	"<![CDATA[" + hA + hA,     // 3
	"<?" + hA + hA,            // 4
	"<a " + hA + hA,           // 5
	"[a](" + hA + hA,          // 6
	"[a](<" + hA + hA,         // 7
	"[a]: <" + hA + hA,        // 8
	"[a]: b '" + hA + hA,      // 9
	"~~~" + hA + hA,           // 10
	"&#" + hA + hA,            // 11
	"\\",                      // 12
	"a\r",                     // 13
	"> > > > > > > > " + hA + hA,         // 14 nesting d=8
	"- - - - - - - - " + hA + hA,         // 15
	"********" + hA + "********",         // 16
	"[[[[[[[[" + hA + "]]]]]]]]",         // 17
	"1. 1. 1. 1. " + hA + hA,             // 18
	"> - > - " + hA + hA,                 // 19
	"![a](" + hA + " \"" + hA,            // 20
	"<" + hA + hA + ">",                  // 21
	// thorough only (three holes):
	"<a " + hA + hA + hA,                 // 22
	"[a](" + hA + hA + hA,                // 23
	"&#" + hA + hA + hA,                  // 24
	"![" + hA + "](" + hA + " \"" + hA,   // 25
	"<" + hA + hA + hA + ">",             // 26
}

// c04Long: size boundaries. A run of n copies of a filler between an opener and a
// closer (kind 3: "[" x^n "]"; kind 4: "[a][" x^n "]"; kind 5: n nested "[";
// kind 6: a^n "@" b "." c as an autolink-like word; kind 7: "&#" 9^n ";"), with
// one symbolic byte in front so that the path is not a single concrete run.
func c04Long(kind, n int) []byte {
	b := []byte{nondetByte()}
	rep := func(c byte, k int) {
		for i := 0; i < k; i++ {
			b = append(b, c)
		}
	}
	switch kind {
	case 3:
		b = append(b, '[')
		rep('x', n)
		b = append(b, ']', '\n')
	case 4:
		b = append(b, "[a]["...)
		rep('x', n)
		b = append(b, ']', '\n')
	case 5:
		rep('[', n)
		b = append(b, 'a')
		rep(']', n)
	case 6:
		b = append(b, '<')
		rep('a', n)
		b = append(b, "@b.c>"...)
	default:
		b = append(b, "&#"...)
		rep('9', n)
		b = append(b, ';')
	}
	return b
}

func c04Input(kind, a int) []byte {
	if kind == 8 {
		return tmplBytes(attrTemplates[a])
	}
	if kind >= 3 {
		return c04Long(kind, a)
	}
	switch kind {
	case 0:
		return nondetBytes(a)
	case 1:
		return tmplBytes(tlTemplates[a])
	}
	return tmplBytes(c04Templates[a])
}

func rejectAll(tag []byte) bool { return true }

func H_C04(kind, a int) {
	in := c04Input(kind, a)
	// (a) in-memory
	blocks, refs := Parse(cloneBytes(in))
	// (b) streaming with a one-shot and a 1-byte reader
	_, _, err := parseStream(&oneShotReader{data: cloneBytes(in)})
	check(err == io.EOF, "C04.stream-error")
	sb, _, err2 := parseStream(&byteReader{data: cloneBytes(in)})
	check(err2 == io.EOF, "C04.stream-error-1byte")
	check(len(sb) == len(blocks), "C04.stream-count")
	// (c) every renderer configuration into a writer that does not fail
	for soft := SoftBreakPreserve; soft <= SoftBreakHarden; soft++ {
		for raw := 0; raw < 2; raw++ {
			for f := 0; f < 3; f++ {
				r := &HTMLRenderer{ReferenceMap: refs, SoftBreakBehavior: soft, IgnoreRaw: raw == 1}
				switch f {
				case 1:
					r.FilterTag = FilterTagGFM
				case 2:
					r.FilterTag = rejectAll
				}
				w := &sliceWriter{}
				check(r.Render(w, blocks) == nil, "C04.render-error")
			}
		}
	}
	// (e) walking
	pre, post := 0, 0
	for _, b := range blocks {
		Walk(b.AsNode(), &WalkOptions{
			Pre:  func(c *Cursor) bool { pre++; return true },
			Post: func(c *Cursor) bool { post++; return true },
		})
	}
	check(pre == post, "C04.walk-balance")
}
