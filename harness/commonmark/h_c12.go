//go:build verif

package commonmark

// C12 — references resolve by normalized label; the first definition wins.

// label alphabet: each member with its full case folding (CaseFolding.txt, status C+F)
var c12Members = []struct {
	bytes string
	fold  string
	ws    bool // space, tab or line ending (collapsible, trimmable)
}{
	{"a", "a", false},
	{"A", "a", false},
	{"s", "s", false},
	{"k", "k", false},
	{"\xc3\x9f", "ss", false},     // ß U+00DF -> ss
	{"\xe1\xba\x9e", "ss", false}, // ẞ U+1E9E -> ss
	{"\xe2\x84\xaa", "k", false},  // KELVIN SIGN U+212A -> k
	{" ", " ", true},
	{"\t", " ", true},
	{"\n", " ", true},
	{"\xc2\xa0", "\xc2\xa0", false}, // NO-BREAK SPACE is not a space, tab or line ending
	{"\\]", "\\]", false},
	{"\\", "\\", false}, // a literal backslash (not before a bracket: never the last unit, never before "\\]")
}

// c12Norm: Unicode case fold, collapse runs of space/tab/line ending to one space, trim those.
func c12Norm(units []int) string {
	var out []byte
	pendingSpace := false
	for _, u := range units {
		m := c12Members[u]
		if m.ws {
			pendingSpace = true
			continue
		}
		if pendingSpace && len(out) > 0 {
			out = append(out, ' ')
		}
		pendingSpace = false
		out = append(out, m.fold...)
	}
	return string(out)
}

func c12Label(k int) (units []int, text []byte) {
	lf := 0
	for i := 0; i < k; i++ {
		u := vconcrete(nondetInt(0, len(c12Members)-1))
		if c12Members[u].bytes == "\n" {
			lf++
		}
		units = append(units, u)
		text = append(text, c12Members[u].bytes...)
	}
	assume(lf <= 1) // two line endings could form a blank line, which ends the paragraph
	for i, u := range units {
		if c12Members[u].bytes == "\\" {
			// a backslash directly before "]" or "\\" would form an escape
			assume(i+1 < len(units) && c12Members[units[i+1]].bytes[0] != '\\')
		}
	}
	return
}

func hasLink(n Node) bool {
	if in := n.Inline(); in != nil && (in.Kind() == LinkKind || in.Kind() == ImageKind) {
		return true
	}
	for i := 0; i < n.ChildCount(); i++ {
		if hasLink(n.Child(i)) {
			return true
		}
	}
	return false
}

// H_C12_long(k, _): a label of k copies of U+0390 (two bytes each, folding to three
// code points / six bytes): far below the 999-character limit as written, well above
// 999 bytes after folding. Definition and uses (shortcut, full, collapsed image) must
// resolve; the use spells one letter in a solver-chosen other case form.
func H_C12_long(k, _ int) {
	var label []byte
	for i := 0; i < k; i++ {
		label = append(label, 0xCE, 0x90)
	}
	tail := nondetByte()
	assume(isL(tail))
	var doc []byte
	doc = append(doc, '[')
	doc = append(doc, label...)
	doc = append(doc, tail)
	doc = append(doc, "]: /u\n\n["...)
	doc = append(doc, label...)
	doc = append(doc, tail^0x20) // the other ASCII case of the same letter
	doc = append(doc, "] ![x]["...)
	doc = append(doc, label...)
	doc = append(doc, tail)
	doc = append(doc, "]\n"...)
	blocks, refs := Parse(doc)
	out := renderWith(&HTMLRenderer{ReferenceMap: refs}, blocks)
	n := 0
	for i := 0; i+4 <= len(out); i++ {
		if string(out[i:i+4]) == "\"/u\"" {
			n++
		}
	}
	check(n == 2, "C12.long-folded-label-resolves")
	check(len(refs) == 1, "C12.long.single-key")
	vdigest(out[:40])
}

// H_C12_nul(k, _): labels of k units over {NUL, 'a', 'A', space} on both sides (a NUL
// is read as U+FFFD): the use resolves exactly when the two labels are equal after
// folding, collapsing and trimming. NULs are still padded zero bytes while reference
// definitions are recognised, which is a separate code path from inline parsing.
func H_C12_nul(k, _ int) {
	mk := func() (norm string, text []byte) {
		pending := false
		var out []byte
		for i := 0; i < k; i++ {
			switch vconcrete(nondetInt(0, 3)) {
			case 0:
				text = append(text, 0)
				if pending && len(out) > 0 {
					out = append(out, ' ')
				}
				pending = false
				out = append(out, 0xEF, 0xBF, 0xBD)
			case 1, 2:
				c := byte('a')
				if len(text)%2 == 1 {
					c = 'A'
				}
				text = append(text, c)
				if pending && len(out) > 0 {
					out = append(out, ' ')
				}
				pending = false
				out = append(out, 'a')
			default:
				text = append(text, ' ')
				pending = true
			}
		}
		return string(out), text
	}
	n1, t1 := mk()
	n2, t2 := mk()
	var doc []byte
	doc = append(doc, '[')
	doc = append(doc, t1...)
	doc = append(doc, "]\n\n["...)
	doc = append(doc, t2...)
	doc = append(doc, "]: /u\n"...)
	blocks, _ := Parse(doc)
	assume(len(blocks) >= 1)
	resolved := hasLink(blocks[0].AsNode())
	if n1 != "" && n1 == n2 {
		check(resolved, "C12.nul-label.should-resolve")
	} else {
		check(!resolved, "C12.nul-label.should-not-resolve")
	}
	vdigest(dumpBlocks(blocks))
}

// H_C12_norm(k1, k2): "[" L1 "]" blank "[" L2 "]: /u"
func H_C12_norm(k1, k2 int) {
	u1, t1 := c12Label(k1)
	u2, t2 := c12Label(k2)
	n1, n2 := c12Norm(u1), c12Norm(u2)
	var doc []byte
	// the reference is spelled in every form the statement names: shortcut, collapsed,
	// full, and full image reference
	form := vconcrete(nondetInt(0, 3))
	switch form {
	case 0:
		doc = append(doc, '[')
		doc = append(doc, t1...)
		doc = append(doc, ']')
	case 1:
		doc = append(doc, '[')
		doc = append(doc, t1...)
		doc = append(doc, "][]"...)
	case 2:
		doc = append(doc, "[x]["...)
		doc = append(doc, t1...)
		doc = append(doc, ']')
	default:
		doc = append(doc, "![x]["...)
		doc = append(doc, t1...)
		doc = append(doc, ']')
	}
	doc = append(doc, "\n\n["...)
	doc = append(doc, t2...)
	doc = append(doc, "]: /u\n"...)
	blocks, refs := Parse(doc)
	assume(len(blocks) >= 1)
	resolved := hasLink(blocks[0].AsNode())
	want := n1 != "" && n1 == n2
	if want {
		check(resolved, "C12.norm.should-resolve")
		if form >= 2 {
			// the WHOLE full reference resolves (not merely its label read as a shortcut
			// reference): the link text / image description is "x"
			out := renderWith(&HTMLRenderer{ReferenceMap: refs}, blocks[:1])
			exp := "<p><a href=\"/u\">x</a></p>"
			if form == 3 {
				exp = "<p><img src=\"/u\" alt=\"x\"></p>"
			}
			check(string(out) == exp, "C12.norm.full-reference-resolves")
		}
	} else {
		check(!resolved, "C12.norm.should-not-resolve")
	}
	vdigest(dumpBlocks(blocks))
}

// ---------------------------------------------------------------- first definition wins

var c12Wrap = []string{"", "> ", "- "}

// H_C12_first(order, _): three items — definition 1, definition 2, use — in one of
// the 6 orders; each optionally inside a block quote or list item; the labels are
// case/whitespace variants of one another. The first definition in source order wins.
func H_C12_first(order, _ int) {
	variants := []string{"foo bar", "FOO BAR", "Foo  Bar", "foo\tbar", "fOO bAR"}
	v := func() string { return variants[vconcrete(nondetInt(0, len(variants)-1))] }
	items := [3]string{
		"[" + v() + "]: /first \"one\"",
		"[" + v() + "]: /second \"two\"",
		"[" + v() + "]",
	}
	perms := [6][3]int{{0, 1, 2}, {0, 2, 1}, {1, 0, 2}, {1, 2, 0}, {2, 0, 1}, {2, 1, 0}}
	p := perms[order]
	var doc []byte
	firstDef := -1
	for _, it := range p {
		w := c12Wrap[vconcrete(nondetInt(0, len(c12Wrap)-1))]
		doc = append(doc, w...)
		doc = append(doc, items[it]...)
		doc = append(doc, "\n\n"...)
		if it != 2 && firstDef < 0 {
			firstDef = it
		}
	}
	blocks, refs := Parse(doc)
	out := renderWith(&HTMLRenderer{ReferenceMap: refs}, blocks)
	wantHref, wantTitle := "/first", "one"
	if firstDef == 1 {
		wantHref, wantTitle = "/second", "two"
	}
	want := "<a href=\"" + wantHref + "\" title=\"" + wantTitle + "\">"
	found := false
	for i := 0; i+len(want) <= len(out); i++ {
		if string(out[i:i+len(want)]) == want {
			found = true
		}
	}
	check(found, "C12.first-wins")
	check(len(refs) == 1, "C12.first.single-key")
	vdigest(out)
}

// H_C12_nested(cont, _): two competing definitions inside ONE root container at
// solver-chosen nesting depths (1 or 2), the use before or after it. Source order
// decides, not nesting depth (a breadth-first or otherwise reordered extraction
// would pick the shallower one). cont 0: block quotes, 1: list items, 2: a list
// item inside a block quote followed by a definition at quote level.
func H_C12_nested(cont, _ int) {
	variants := []string{"foo bar", "FOO BAR", "Foo  Bar", "fOO\tbAR"}
	v := func() string { return variants[vconcrete(nondetInt(0, len(variants)-1))] }
	def1 := "[" + v() + "]: /first \"one\""
	def2 := "[" + v() + "]: /second \"two\""
	use := "[" + v() + "]"
	d1 := vconcrete(nondetInt(1, 2))
	d2 := vconcrete(nondetInt(1, 2))
	useFirst := nondetBool()
	rep := func(s string, n int) string {
		out := ""
		for i := 0; i < n; i++ {
			out += s
		}
		return out
	}
	var doc []byte
	if useFirst {
		doc = append(doc, use+"\n\n"...)
	}
	switch cont {
	case 0:
		doc = append(doc, rep("> ", d1)+def1+"\n>\n"+rep("> ", d2)+def2+"\n\n"...)
	case 1:
		second := "  "
		if d2 == 2 {
			second += "- "
		}
		doc = append(doc, rep("- ", d1)+def1+"\n\n"+second+def2+"\n\n"...)
	default:
		first := "> "
		if d1 == 2 {
			first += "- "
		}
		second := "> "
		if d2 == 2 {
			second += "- "
		}
		doc = append(doc, first+def1+"\n>\n"+second+def2+"\n\n"...)
	}
	if !useFirst {
		doc = append(doc, use+"\n"...)
	}
	blocks, refs := Parse(doc)
	nb := 1
	if cont == 1 && d1 == 1 && d2 == 1 {
		nb = 1
	}
	check(len(blocks) == nb+1, "C12.nested.one-container")
	out := renderWith(&HTMLRenderer{ReferenceMap: refs}, blocks)
	want := "<a href=\"/first\" title=\"one\">"
	found := false
	for i := 0; i+len(want) <= len(out); i++ {
		if string(out[i:i+len(want)]) == want {
			found = true
		}
	}
	check(found, "C12.first-wins.nested")
	check(len(refs) == 1, "C12.first.single-key")
	vdigest(out)
}

// H_C12_multiline(form, _): a full reference (form 0), an image reference (1) or a
// definition (2) whose label continues on the next line, inside a container chosen by
// the solver ("> ", ">", "- " with two-space continuation, "1. " with three). The
// label's line ending and the container prefix of the continuation line are
// whitespace to collapse, not label text: the reference resolves against "f g".
func H_C12_multiline(form, _ int) {
	c := vconcrete(nondetInt(0, 3))
	first := []string{"> ", ">", "- ", "1. "}[c]
	rest := []string{"> ", ">", "  ", "   "}[c]
	l1, l2 := nondetByte(), nondetByte()
	assume(isL(l1))
	assume(isL(l2))
	var doc []byte
	doc = append(doc, first...)
	switch form {
	case 0:
		doc = append(doc, "[t]["...)
	case 1:
		doc = append(doc, "![t]["...)
	default:
		doc = append(doc, '[')
	}
	doc = append(doc, l1, '\n')
	doc = append(doc, rest...)
	doc = append(doc, l2, ']')
	if form == 2 {
		doc = append(doc, ": /u\n\n[x]["...)
		doc = append(doc, l1, ' ', l2, ']', '\n')
	} else {
		doc = append(doc, "\n\n["...)
		doc = append(doc, l1, ' ', l2)
		doc = append(doc, "]: /u\n"...)
	}
	blocks, refs := Parse(doc)
	out := renderWith(&HTMLRenderer{ReferenceMap: refs}, blocks)
	want := "href=\"/u\""
	if form == 1 {
		want = "src=\"/u\""
	}
	found := false
	for i := 0; i+len(want) <= len(out); i++ {
		if string(out[i:i+len(want)]) == want {
			found = true
		}
	}
	if !found {
		vnote("doc=" + string(doc))
		vnote("out=" + string(out))
	}
	check(found, "C12.multiline-label-resolves")
	check(len(refs) == 1, "C12.multiline.single-key")
	vdigest(out)
}

// ---------------------------------------------------------------- closure

func c12KeyNormalized(k string) bool {
	ok := true
	prevSpace := true // a leading space is not allowed
	for i := 0; i < len(k); i++ {
		c := k[i]
		isSp := c == ' '
		ok = vand(ok, vand(c != '\t', vand(c != '\n', c != '\r')))
		ok = vand(ok, !vand('A' <= c, c <= 'Z'))
		if prevSpace {
			ok = vand(ok, !isSp)
		}
		prevSpace = isSp
	}
	if len(k) > 0 {
		ok = vand(ok, k[len(k)-1] != ' ')
	}
	return ok
}

func (c *closureChecker) node(n Node) {
	if in := n.Inline(); in != nil && (in.Kind() == LinkKind || in.Kind() == ImageKind) {
		if ref := in.LinkReference(); ref != "" {
			_, ok := c.refs[ref]
			check(ok, "C12.closure.link-key-in-map")
		}
	}
	for i := 0; i < n.ChildCount(); i++ {
		c.node(n.Child(i))
	}
}

type closureChecker struct{ refs ReferenceMap }

func H_C12_closure(kind, a int) {
	in := treeInput(kind, a)
	blocks, refs := Parse(in)
	c := &closureChecker{refs: refs}
	for _, b := range blocks {
		c.node(b.AsNode())
	}
	fresh := make(ReferenceMap)
	for _, b := range blocks {
		fresh.Extract(b.Source, b.AsNode())
	}
	check(len(fresh) == len(refs), "C12.closure.map-size")
	check(vsame(dumpRefs(blocks, fresh), dumpRefs(blocks, refs)), "C12.closure.map-equals-extract")
	// keys are in normalized form (the part of it that can be stated without case tables)
	var walk func(n Node)
	walk = func(n Node) {
		b := n.Block()
		if b == nil {
			return
		}
		if b.Kind() == LinkReferenceDefinitionKind && b.ChildCount() > 0 {
			label := b.Child(0).Inline().LinkReference()
			check(c12KeyNormalized(label), "C12.closure.key-normalized")
			return
		}
		for i := 0; i < b.ChildCount(); i++ {
			walk(b.Child(i))
		}
	}
	for _, b := range blocks {
		walk(b.AsNode())
	}
	vdigest(dumpBlocks(blocks))
}


// H_C12_adjacent(eol, _): two definitions on adjacent lines of ONE paragraph (the
// second is recognised only after the first has been split off), in LF (0), CRLF (1)
// or bare-CR (2) spelling, optionally inside a block quote, the first optionally
// titled, optionally followed by a line of ordinary text; then a blank line and the
// uses. The second definition either competes for the same label (first wins) or
// defines another label (both resolve).
func H_C12_adjacent(eol, _ int) {
	e := []string{"\n", "\r\n", "\r"}[eol]
	variants := []string{"foo bar", "FOO BAR", "Foo  Bar", "fOO\tbAR"}
	v := func() string { return variants[vconcrete(nondetInt(0, len(variants)-1))] }
	pre := ""
	if nondetBool() {
		pre = "> "
	}
	titled := nondetBool()
	compete := nondetBool()
	text := nondetBool()
	w := nondetByte()
	assume(isL(w))
	var doc []byte
	doc = append(doc, pre+"["+v()+"]: /first"...)
	if titled {
		doc = append(doc, " \"one\""...)
	}
	doc = append(doc, e...)
	if compete {
		doc = append(doc, pre+"["+v()+"]: /second"+e...)
	} else {
		doc = append(doc, pre+"[baz]: /second"+e...)
	}
	if text {
		doc = append(doc, pre...)
		doc = append(doc, w)
		doc = append(doc, e...)
	}
	doc = append(doc, e...)
	doc = append(doc, "["+v()+"] [BAZ]"+e...)
	blocks, refs := Parse(doc)
	out := renderWith(&HTMLRenderer{ReferenceMap: refs}, blocks)
	has := func(want string) bool {
		for i := 0; i+len(want) <= len(out); i++ {
			if string(out[i:i+len(want)]) == want {
				return true
			}
		}
		return false
	}
	if titled {
		check(has("<a href=\"/first\" title=\"one\">"), "C12.adjacent.first-wins")
	} else {
		check(has("<a href=\"/first\">"), "C12.adjacent.first-wins")
	}
	if compete {
		check(len(refs) == 1, "C12.adjacent.keys")
		check(!has("/second"), "C12.adjacent.second-silent")
	} else {
		check(len(refs) == 2, "C12.adjacent.keys")
		check(has("<a href=\"/second\">"), "C12.adjacent.second-resolves")
	}
	vdigest(out)
}

// H_C12_fallback(form, _): a shortcut reference (form 0) or shortcut image (form 1)
// directly followed by a '[' that does NOT begin a link label - an unclosed bracket,
// a label containing an unescaped bracket, or "[" + line ending: "a shortcut reference
// link consists of a link label that matches a link reference definition elsewhere in
// the document and is not followed by [] or a link label" (CommonMark 0.30 section
// 6.3), so the reference resolves exactly when its own label matches.
func H_C12_fallback(form, _ int) {
	variants := []string{"foo bar", "FOO BAR", "Foo  Bar", "fox"}
	use := variants[vconcrete(nondetInt(0, len(variants)-1))]
	tail := []string{"[b", "[b[c]", "[\n", "[b\\]"}[vconcrete(nondetInt(0, 3))]
	w := nondetByte()
	assume(isL(w))
	var doc []byte
	if form == 1 {
		doc = append(doc, '!')
	}
	doc = append(doc, "["+use+"]"+tail...)
	doc = append(doc, w)
	doc = append(doc, "\n\n[foo bar]: /u\n"...)
	blocks, refs := Parse(doc)
	out := renderWith(&HTMLRenderer{ReferenceMap: refs}, blocks[:1])
	want := "<p><a href=\"/u\">" + use + "</a>"
	if form == 1 {
		want = "<p><img src=\"/u\" alt=\"" + use + "\">"
	}
	resolved := len(out) >= len(want) && string(out[:len(want)]) == want
	if use == "fox" {
		check(!hasLink(blocks[0].AsNode()), "C12.fallback.should-not-resolve")
	} else {
		check(resolved, "C12.fallback.shortcut-resolves")
	}
	vdigest(out)
}

// H_C12_limit(n, _): "A link label can have at most 999 characters inside the square
// brackets": a label of n characters (n-1 times 'a' and a free letter; optionally the
// last two characters are an escaped bracket, optionally the label is padded with a
// space on each side, which counts) defines and resolves - as a definition, a shortcut
// and a full reference - exactly when n <= 999.
func H_C12_limit(n, _ int) {
	w := nondetByte()
	assume(isL(w))
	var label []byte
	switch vconcrete(nondetInt(0, 2)) {
	case 0:
		for i := 0; i < n-1; i++ {
			label = append(label, 'a')
		}
		label = append(label, w)
	case 1:
		for i := 0; i < n-3; i++ {
			label = append(label, 'a')
		}
		label = append(label, w, '\\', ']')
	default:
		label = append(label, ' ')
		for i := 0; i < n-3; i++ {
			label = append(label, 'a')
		}
		label = append(label, w, ' ')
	}
	var doc []byte
	doc = append(doc, '[')
	doc = append(doc, label...)
	doc = append(doc, "]: /u\n\n["...)
	doc = append(doc, label...)
	doc = append(doc, "] [x]["...)
	doc = append(doc, label...)
	doc = append(doc, "]\n"...)
	blocks, refs := Parse(doc)
	out := renderWith(&HTMLRenderer{ReferenceMap: refs}, blocks)
	links := 0
	for i := 0; i+9 <= len(out); i++ {
		if string(out[i:i+9]) == "href=\"/u\"" {
			links++
		}
	}
	if n <= 999 {
		check(len(refs) == 1, "C12.limit.definition-accepted")
		check(links == 2, "C12.limit.references-resolve")
	} else {
		check(len(refs) == 0 && links == 0, "C12.limit.over-long-label-rejected")
	}
	vdigest(out[:16])
}
