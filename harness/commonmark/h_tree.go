//go:build verif

package commonmark

import "io"

// Tree oracles for C02 (spans), C03 (leaf cover), C05 (grammar), C13 (shapes).
// One driver, four clause sets; mode selects which set is active so that each
// property's check decides only its own clauses.

const (
	mC02 = 1 << iota
	mC03
	mC05
	mC13
)

type treeChecker struct {
	mode  int
	src   []byte
	cover []int
	valid bool // input is valid UTF-8 (possibly symbolic)
}

// treeInput selects the input family: 0 = F(a); 1 = TL[a]; 2 = attribute-emission
// templates; 3 = C04 templates; 4 = C14 templates; 5 = C17 HTML templates;
// 6 = TL[a] with CRLF line endings; 7 = TL[a] with bare-CR line endings;
// 8 = reference definition + full reference whose label spans a lines and is just
// below the 999-character label limit.
func treeInput(kind, a int) []byte {
	switch kind {
	case 0:
		return nondetBytes(a)
	case 1:
		return tmplBytes(tlTemplates[a])
	case 2:
		return tmplBytes(attrTemplates[a])
	case 3:
		return tmplBytes(c04Templates[a])
	case 4:
		return tmplBytes(c14Templates[a])
	case 8:
		return longLabelDoc(a)
	case 6:
		return tmplBytes(tmplEOL(tlTemplates[a], 1))
	case 7:
		return tmplBytes(tmplEOL(tlTemplates[a], 2))
	}
	return tmplBytes(c17Templates[a])
}

// longLabelDoc: "[label]: /u" LF "[x][label]" where label consists of `lines`
// lines of letters ('a's, the last byte a symbolic letter) totalling 990..997
// characters including its interior line endings: inside the 999-character limit
// however the lines are prefixed or indented.
func longLabelDoc(lines int) []byte {
	w := (997 - (lines - 1)) / lines
	var label []byte
	for i := 0; i < lines; i++ {
		if i > 0 {
			label = append(label, '\n')
		}
		for k := 0; k < w; k++ {
			label = append(label, 'a')
		}
	}
	last := nondetByte()
	assume(isL(last))
	label[len(label)-1] = last
	var d []byte
	d = append(d, '[')
	d = append(d, label...)
	d = append(d, "]: /u\n[x]["...)
	d = append(d, label...)
	d = append(d, ']')
	return d
}

// parseVia parses through the in-memory (0) or the streaming (1) entry point.
func parseVia(in []byte, entry int) ([]*RootBlock, ReferenceMap) {
	if entry == 0 {
		return Parse(in)
	}
	blocks, refs, err := parseStream(&oneShotReader{data: in})
	check(err == io.EOF, "stream-eof")
	return blocks, refs
}

func treeCheck(mode int, in []byte, entry int) {
	valid := true
	if mode&mC02 != 0 {
		valid = vutf8valid(in)
	}
	blocks, _ := parseVia(in, entry)
	for _, rb := range blocks {
		c := &treeChecker{mode: mode, src: rb.Source, valid: valid}
		if mode&mC03 != 0 {
			c.cover = make([]int, len(rb.Source))
		}
		sp := rb.Span()
		if mode&mC02 != 0 {
			check(sp.End == len(rb.Source), "C02.root-end")
			for i := 0; i < sp.Start && i < len(rb.Source); i++ {
				check(classOK(rb.Source[i], 'S'), "C02.root-prefix")
			}
		}
		c.node(rb.AsNode(), Span{Start: 0, End: len(rb.Source)}, false)
		if mode&mC03 != 0 {
			for i := range rb.Source {
				check(c.cover[i] <= 1, "C03.dup")
				if c.cover[i] != 1 {
					b := rb.Source[i]
					check(!vor(vor(isL(b), isD(b)), isHi(b)), "C03.loss")
				}
			}
		}
	}
	vdigest(dumpBlocks(blocks))
}

func (c *treeChecker) node(n Node, parent Span, inLink bool) {
	sp := n.Span()
	if !sp.IsValid() {
		if c.mode&mC02 != 0 {
			check(false, "C02.valid:"+kindName(n))
		}
		return
	}
	if sp.End > len(c.src) {
		if c.mode&mC02 != 0 {
			check(false, "C02.in-source:"+kindName(n))
		}
		return
	}
	if c.mode&mC02 != 0 {
		check(sp.Start >= parent.Start && sp.End <= parent.End, "C02.in-parent:"+kindName(n))
		for k := 0; k < 2; k++ {
			b := sp.Start
			if k == 1 {
				b = sp.End
			}
			if b > 0 && b < len(c.src) {
				// valid UTF-8 => the byte after a boundary is not a continuation byte
				check(!vand(c.valid, c.src[b]&0xC0 == 0x80), "C02.utf8:"+kindName(n))
			}
		}
		prevEnd := -1
		for i := 0; i < n.ChildCount(); i++ {
			cs := n.Child(i).Span()
			if cs.IsValid() {
				if prevEnd >= 0 {
					check(cs.Start >= prevEnd, "C02.siblings:"+kindName(n))
				}
				prevEnd = cs.End
			}
		}
	}
	if c.mode&mC03 != 0 && n.ChildCount() == 0 {
		leaf := n.Inline() != nil
		if b := n.Block(); b != nil && b.Kind() == ListMarkerKind {
			leaf = true
		}
		if leaf {
			for i := sp.Start; i < sp.End; i++ {
				c.cover[i]++
			}
		}
	}
	if c.mode&mC05 != 0 {
		c.grammar(n, inLink)
	}
	if c.mode&mC13 != 0 {
		c.shape(n)
	}
	il := inLink
	if in := n.Inline(); in != nil && in.Kind() == LinkKind {
		il = true
	}
	for i := 0; i < n.ChildCount(); i++ {
		c.node(n.Child(i), sp, il)
	}
}

func phrasing(k InlineKind) bool {
	switch k {
	case TextKind, SoftLineBreakKind, HardLineBreakKind, IndentKind, CharacterReferenceKind,
		EmphasisKind, StrongKind, LinkKind, ImageKind, CodeSpanKind, AutolinkKind, HTMLTagKind:
		return true
	}
	return false
}

func (c *treeChecker) grammar(n Node, inLink bool) {
	if b := n.Block(); b != nil {
		k := b.Kind()
		lvl := b.HeadingLevel()
		if k.IsHeading() {
			check(lvl >= 1 && lvl <= 6 && (k != SetextHeadingKind || lvl <= 2), "C05.heading-level")
		} else {
			check(lvl == 0, "C05.heading-level-nonheading")
		}
		if k != ListItemKind {
			check(b.ListItemNumber(c.src) == -1, "C05.itemnumber-nonitem")
		}
		switch k {
		case ListKind:
			check(b.ChildCount() > 0, "C05.list-empty")
			for i := 0; i < b.ChildCount(); i++ {
				it := b.Child(i).Block()
				if it == nil || it.Kind() != ListItemKind {
					check(false, "C05.list-child")
					continue
				}
				check(it.IsOrderedList() == b.IsOrderedList() && it.IsTightList() == b.IsTightList(), "C05.list-item-agree")
			}
		case ListItemKind:
			check(b.ChildCount() > 0 && b.Child(0).Block() != nil && b.Child(0).Block().Kind() == ListMarkerKind, "C05.item-marker-first")
			for i := 1; i < b.ChildCount(); i++ {
				cb := b.Child(i).Block()
				check(cb != nil && cb.Kind() != ListMarkerKind && cb.Kind() != ListItemKind, "C05.item-child")
			}
			num := b.ListItemNumber(c.src)
			if b.IsOrderedList() {
				check(vand(num >= 0, num <= 999999999), "C05.item-number-range")
			} else {
				check(num == -1, "C05.item-number-bullet")
			}
		case LinkReferenceDefinitionKind:
			ok := b.ChildCount() >= 2 && b.ChildCount() <= 3 &&
				b.Child(0).Inline().Kind() == LinkLabelKind && b.Child(1).Inline().Kind() == LinkDestinationKind &&
				(b.ChildCount() == 2 || b.Child(2).Inline().Kind() == LinkTitleKind)
			check(ok, "C05.refdef-shape")
		case ParagraphKind, ATXHeadingKind, SetextHeadingKind:
			for i := 0; i < b.ChildCount(); i++ {
				in := b.Child(i).Inline()
				check(in != nil && phrasing(in.Kind()), "C05.phrasing:"+kindName(b.Child(i)))
			}
		case IndentedCodeBlockKind, FencedCodeBlockKind:
			for i := 0; i < b.ChildCount(); i++ {
				in := b.Child(i).Inline()
				switch {
				case in == nil:
					check(false, "C05.code-child-block")
				case in.Kind() == InfoStringKind:
					check(i == 0 && k == FencedCodeBlockKind, "C05.info-first")
				case in.Kind() == TextKind || in.Kind() == IndentKind || in.Kind() == SoftLineBreakKind:
				default:
					check(false, "C05.code-child:"+kindName(b.Child(i)))
				}
			}
		case HTMLBlockKind:
			for i := 0; i < b.ChildCount(); i++ {
				in := b.Child(i).Inline()
				check(in != nil && (in.Kind() == RawHTMLKind || in.Kind() == IndentKind), "C05.html-child:"+kindName(b.Child(i)))
			}
		case ThematicBreakKind, ListMarkerKind:
			check(b.ChildCount() == 0, "C05.leafblock-children")
		case BlockQuoteKind:
			for i := 0; i < b.ChildCount(); i++ {
				cb := b.Child(i).Block()
				check(cb != nil && cb.Kind() != ListItemKind && cb.Kind() != ListMarkerKind, "C05.quote-child")
			}
		}
		return
	}
	in := n.Inline()
	if in == nil {
		return
	}
	check(in.Kind() != UnparsedKind, "C05.unparsed")
	if in.Kind() == LinkKind {
		check(!inLink, "C05.link-in-link")
	}
	// phrasing content all the way down: emphasis holds only phrasing inlines, and a
	// destination / title / label part is a direct child of a link or image only
	if in.Kind() == EmphasisKind || in.Kind() == StrongKind {
		for i := 0; i < in.ChildCount(); i++ {
			check(phrasing(in.Child(i).Kind()), "C05.phrasing-in-emphasis:"+kindName(in.Child(i).AsNode()))
		}
	}
	if in.Kind() != LinkKind && in.Kind() != ImageKind {
		for i := 0; i < in.ChildCount(); i++ {
			k := in.Child(i).Kind()
			check(k != LinkDestinationKind && k != LinkTitleKind && k != LinkLabelKind, "C05.link-part-outside-link")
		}
	}
	if in.Kind() == LinkKind || in.Kind() == ImageKind {
		nn := in.ChildCount()
		tail := 0
		for i := 0; i < nn; i++ {
			k := in.Child(i).Kind()
			if k == LinkDestinationKind || k == LinkTitleKind || k == LinkLabelKind {
				tail++
			} else {
				check(tail == 0, "C05.link-tail-not-last")
				check(phrasing(k), "C05.phrasing-in-link:"+kindName(in.Child(i).AsNode()))
			}
		}
		check(tail <= 2, "C05.link-tail-count")
		if tail == 2 {
			k1, k2 := in.Child(nn-2).Kind(), in.Child(nn-1).Kind()
			check(k1 == LinkDestinationKind && k2 == LinkTitleKind, "C05.link-tail-order")
		}
		if in.LinkReference() != "" {
			check(in.LinkDestination() == nil && in.LinkTitle() == nil, "C05.reflink-has-dest")
		}
	}
}

// allByte reports (without forking) whether every byte of s equals c.
func allByte(s []byte, c byte) bool {
	ok := true
	for _, b := range s {
		ok = vand(ok, b == c)
	}
	return ok
}

func (c *treeChecker) shape(n Node) {
	sp := n.Span()
	s := c.src[sp.Start:sp.End]
	if b := n.Block(); b != nil {
		switch b.Kind() {
		case ATXHeadingKind:
			lvl := b.HeadingLevel()
			if lvl < 0 || len(s) < lvl {
				check(false, "C13.atx")
			} else {
				ok := allByte(s[:lvl], '#')
				if len(s) > lvl {
					ok = vand(ok, s[lvl] != '#')
				}
				check(ok, "C13.atx")
			}
		case SetextHeadingKind:
			// last non-blank byte is the underline character of the level
			want := byte('=')
			if b.HeadingLevel() == 2 {
				want = '-'
			}
			// found: scanning from the end, the first byte that is not SP/TAB/CR/LF equals want
			res := false
			pending := true // no non-blank byte seen yet
			for i := len(s) - 1; i >= 0; i-- {
				blank := classOK(s[i], 'W')
				res = vor(res, vand(pending, vand(!blank, s[i] == want)))
				pending = vand(pending, blank)
			}
			check(res, "C13.setext")
		case FencedCodeBlockKind:
			if len(s) < 3 {
				check(false, "C13.fence")
			} else {
				check(vand(vor(s[0] == '`', s[0] == '~'), vand(s[1] == s[0], s[2] == s[0])), "C13.fence")
			}
		case BlockQuoteKind:
			if len(s) < 1 {
				check(false, "C13.quote")
			} else {
				check(s[0] == '>', "C13.quote")
			}
		case ListMarkerKind:
			ok := false
			if len(s) == 1 {
				ok = vor(s[0] == '-', vor(s[0] == '+', s[0] == '*'))
			}
			if len(s) >= 2 && len(s) <= 10 {
				d := vor(s[len(s)-1] == '.', s[len(s)-1] == ')')
				for _, x := range s[:len(s)-1] {
					d = vand(d, isD(x))
				}
				ok = vor(ok, d)
			}
			check(ok, "C13.marker")
		}
		return
	}
	in := n.Inline()
	switch in.Kind() {
	case EmphasisKind:
		if len(s) < 2 {
			check(false, "C13.em")
		} else {
			check(vand(vor(s[0] == '*', s[0] == '_'), s[len(s)-1] == s[0]), "C13.em")
		}
	case StrongKind:
		if len(s) < 4 {
			check(false, "C13.strong")
		} else {
			check(vand(vor(s[0] == '*', s[0] == '_'), vand(s[1] == s[0], vand(s[len(s)-1] == s[0], s[len(s)-2] == s[0]))), "C13.strong")
		}
	case CodeSpanKind:
		// starts and ends with backtick strings of equal length: exists a>=1 with
		// s[:a] all '`', s[a] != '`', s[len-a:] all '`', s[len-a-1] != '`', 2a <= len
		ok := false
		for a := 1; 2*a <= len(s); a++ {
			t := vand(allByte(s[:a], '`'), allByte(s[len(s)-a:], '`'))
			if 2*a < len(s) {
				t = vand(t, vand(s[a] != '`', s[len(s)-a-1] != '`'))
			}
			ok = vor(ok, t)
		}
		check(ok, "C13.codespan")
	case LinkKind:
		if len(s) < 2 {
			check(false, "C13.link")
		} else {
			check(vand(s[0] == '[', vor(s[len(s)-1] == ']', s[len(s)-1] == ')')), "C13.link")
		}
	case ImageKind:
		if len(s) < 3 {
			check(false, "C13.image")
		} else {
			check(vand(vand(s[0] == '!', s[1] == '['), vor(s[len(s)-1] == ']', s[len(s)-1] == ')')), "C13.image")
		}
	case AutolinkKind, HTMLTagKind:
		if len(s) < 2 {
			check(false, "C13.angle:"+kindName(n))
		} else {
			check(vand(s[0] == '<', s[len(s)-1] == '>'), "C13.angle:"+kindName(n))
		}
	case CharacterReferenceKind:
		if len(s) < 3 {
			check(false, "C13.charref")
		} else {
			check(vand(s[0] == '&', s[len(s)-1] == ';'), "C13.charref")
		}
	case HardLineBreakKind:
		// backslash or 2+ spaces, together with the line ending
		ok := false
		if len(s) >= 1 {
			bs := s[0] == '\\'
			switch len(s) {
			case 2:
				ok = vand(bs, vor(s[1] == '\n', s[1] == '\r'))
			case 3:
				ok = vand(bs, vand(s[1] == '\r', s[2] == '\n'))
			}
		}
		// k spaces (k>=2) followed by LF, CR or CRLF
		for eol := 1; eol <= 2; eol++ {
			k := len(s) - eol
			if k < 2 {
				continue
			}
			sp := allByte(s[:k], ' ')
			var e bool
			if eol == 1 {
				e = vor(s[k] == '\n', s[k] == '\r')
			} else {
				e = vand(s[k] == '\r', s[k+1] == '\n')
			}
			ok = vor(ok, vand(sp, e))
		}
		check(ok, "C13.hardbreak")
	}
}

func H_C02(kind, a int) { treeCheck(mC02, treeInput(kind, a), 0) }
func H_C03(kind, a int) { treeCheck(mC03, treeInput(kind, a), 0) }
func H_C05(kind, a int) { treeCheck(mC05, treeInput(kind, a), 0) }
func H_C13(kind, a int) { treeCheck(mC13, treeInput(kind, a), 0) }

// streaming + Extract + Rewrite variants
func H_C02s(kind, a int) { treeCheck(mC02, treeInput(kind, a), 1) }
func H_C05s(kind, a int) { treeCheck(mC05, treeInput(kind, a), 1) }
