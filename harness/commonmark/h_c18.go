//go:build verif

package commonmark

// C18 — Walk visits every node once, in order, honouring pruning and abort.

var c18Docs = []string{
	"a *b* c",
	"> - x\n>   y\n\n# h",
	"[a](b \"t\") ![i](s)\n\n[r]: /u",
	"1. a\n2. b\n\n   c",
	"```go\nx\n```\n\n<div>\n",
	"a `b` <c> &amp;\\\nd",
}

type c18Event struct {
	post   bool
	node   Node
	parent Node
	index  int
	block  *Block
	ret    bool
}

type c18Tree struct {
	virtual  bool
	children map[Node][]Node
	roots    []*RootBlock
	countFn  func(Node) int
	childFn  func(Node, int) Node
}

func (t *c18Tree) count(n Node) int {
	if t.countFn != nil {
		return t.countFn(n)
	}
	if t.virtual {
		return len(t.children[n])
	}
	if n == (Node{}) {
		return len(t.roots)
	}
	return n.ChildCount()
}

func (t *c18Tree) child(n Node, i int) Node {
	if t.childFn != nil {
		return t.childFn(n, i)
	}
	if t.virtual {
		return t.children[n][i]
	}
	if n == (Node{}) {
		return t.roots[i].AsNode()
	}
	return n.Child(i)
}

// c18Ref is the reference walker: it consumes the recorded decisions in order and
// checks that every recorded event is the one the specification predicts.
type c18Ref struct {
	t       *c18Tree
	log     []c18Event
	pos     int
	hasPre  bool
	hasPost bool
	ok      bool
}

func (r *c18Ref) expect(post bool, n, parent Node, index int, block *Block) bool {
	if r.pos >= len(r.log) {
		check(false, "C18.missing-event")
		r.ok = false
		return false
	}
	e := r.log[r.pos]
	r.pos++
	check(e.post == post && e.node == n, "C18.order")
	if index < 0 {
		// the root has no parent and a negative index
		check(e.parent == (Node{}) && e.index < 0, "C18.root-cursor")
	} else {
		check(e.parent == parent && e.index == index, "C18.cursor-parent-index")
	}
	check(e.block == block, "C18.cursor-parent-block")
	if e.post != post || e.node != n {
		r.ok = false
	}
	return e.ret
}

func (r *c18Ref) walk(n, parent Node, index int, block *Block) bool {
	if !r.ok {
		return false
	}
	if r.hasPre {
		if !r.expect(false, n, parent, index, block) {
			return r.ok // pruned: no children, no Post
		}
	}
	childBlock := block
	if b := n.Block(); b != nil {
		childBlock = b
	}
	for i, cnt := 0, r.t.count(n); i < cnt; i++ {
		if !r.walk(r.t.child(n, i), n, i, childBlock) {
			return false
		}
	}
	if r.hasPost {
		if !r.expect(true, n, parent, index, block) {
			return false // abort
		}
	}
	return r.ok
}

// H_C18(mode, d): mode 0 = real tree of document d (first root block), default child
// functions; 1 = virtual root over the real root blocks through custom functions;
// 2 = fully virtual tree whose shape is symbolic (d%10 = maximum depth, d/10 = maximum
// number of non-root nodes, 0 meaning 9); 3 = wide real tree (one list of d items,
// walked through a virtual root) and 4 = deep real tree (d nested block quotes):
// sizes that cross the growth steps of Walk's explicit stack; in modes 3 and 4
// every callback returns true except the one at a solver-chosen position.
func H_C18(mode, d int) {
	t := &c18Tree{}
	var root Node
	custom := false
	single := false
	onlyCount, onlyChild := false, false
	switch mode {
	case 5, 6:
		// exactly one user-supplied accessor: mode 5 a ChildCount that hides the children
		// of emphasis and link nodes (default Child), mode 6 a Child that presents the
		// children in reverse order (default ChildCount). Each must replace its default.
		blocks, _ := Parse([]byte(c18Docs[d]))
		root = blocks[0].AsNode()
		if mode == 5 {
			onlyCount = true
			t.countFn = func(n Node) int {
				if in := n.Inline(); in != nil && (in.Kind() == EmphasisKind || in.Kind() == LinkKind) {
					return 0
				}
				return n.ChildCount()
			}
		} else {
			onlyChild = true
			t.childFn = func(n Node, i int) Node { return n.Child(n.ChildCount() - 1 - i) }
		}
	case 3, 4, 7, 8:
		var doc []byte
		if mode == 3 || mode == 7 {
			for i := 0; i < d; i++ {
				doc = append(doc, "- a\n"...)
			}
		} else {
			for i := 0; i < d; i++ {
				doc = append(doc, '>')
			}
			doc = append(doc, " a\n"...)
		}
		blocks, _ := Parse(doc)
		root = blocks[0].AsNode()
		single = true
	case 0:
		blocks, _ := Parse([]byte(c18Docs[d]))
		root = blocks[0].AsNode()
	case 1:
		blocks, _ := Parse([]byte(c18Docs[d]))
		t.roots = blocks
		custom = true
	case 2:
		t.virtual = true
		t.children = map[Node][]Node{}
		custom = true
		total := 0
		maxNodes := d / 10
		if maxNodes == 0 {
			maxNodes = 9
		}
		d = d % 10
		var build func(n Node, depth int)
		build = func(n Node, depth int) {
			if depth >= d {
				return
			}
			k := vconcrete(nondetInt(0, 2))
			for i := 0; i < k; i++ {
				total++
				assume(total <= maxNodes)
				var c Node
				if nondetBool() {
					c = (&Block{}).AsNode()
				} else {
					c = (&Inline{}).AsNode()
				}
				t.children[n] = append(t.children[n], c)
				build(c, depth+1)
			}
		}
		root = (&Block{}).AsNode()
		build(root, 0)
	}
	hasPre, hasPost := nondetBool(), nondetBool()
	var log []c18Event
	flipAt := -1
	if single {
		var size func(n Node) int
		size = func(n Node) int {
			k := 1
			for i := 0; i < n.ChildCount(); i++ {
				k += size(n.Child(i))
			}
			return k
		}
		if mode >= 7 {
			// modes 7 (wide) and 8 (deep): the same trees at larger sizes, the callback
			// that returns false chosen from a short menu of positions (none, the first
			// events, the middle of the event sequence, the last events)
			sz := size(root)
			menu := []int{-1, 0, 1, sz - 1, sz, sz + 1, 2*sz - 2, 2*sz - 1}
			flipAt = menu[vconcrete(nondetInt(0, len(menu)-1))]
		} else {
			flipAt = vconcrete(nondetInt(-1, 2*size(root)))
		}
	}
	record := func(post bool, c *Cursor) bool {
		var ret bool
		if single {
			ret = len(log) != flipAt
		} else {
			ret = nondetBool()
		}
		log = append(log, c18Event{post: post, node: c.Node(), parent: c.Parent(), index: c.Index(), block: c.ParentBlock(), ret: ret})
		// Parent().Child(Index()) == Node(), through the custom child function when set
		if c.Parent() != (Node{}) || (custom && mode == 1 && c.Index() >= 0) {
			// (through the custom child function when one is set)
			check(t.child(c.Parent(), c.Index()) == c.Node(), "C18.cursor-child-identity")
		}
		return ret
	}
	opts := &WalkOptions{}
	if hasPre {
		opts.Pre = func(c *Cursor) bool { return record(false, c) }
	}
	if hasPost {
		opts.Post = func(c *Cursor) bool { return record(true, c) }
	}
	if custom {
		opts.ChildCount = t.count
		opts.Child = t.child
	}
	if onlyCount {
		opts.ChildCount = t.countFn
	}
	if onlyChild {
		opts.Child = t.childFn
	}
	Walk(root, opts)
	ref := &c18Ref{t: t, log: log, hasPre: hasPre, hasPost: hasPost, ok: true}
	ref.walk(root, Node{}, -1, nil)
	check(ref.pos == len(log), "C18.extra-events")
	var d2 []byte
	for _, e := range log {
		if e.post {
			d2 = append(d2, 'o')
		} else {
			d2 = append(d2, 'p')
		}
		if e.ret {
			d2 = append(d2, '1')
		} else {
			d2 = append(d2, '0')
		}
	}
	vdigest(d2)
}
