//go:build verif

package commonmark

import "io"

// C01 — root blocks tile the input losslessly, with exact offsets and line numbers.

// lineCountRef counts line endings (LF, CR, CRLF each once) independently of the
// implementation's lineCount.
func lineCountRef(b []byte) int {
	n := 0
	for i := 0; i < len(b); i++ {
		if b[i] == '\n' {
			n++
		} else if b[i] == '\r' {
			n++
			if i+1 < len(b) && b[i+1] == '\n' {
				i++
			}
		}
	}
	return n
}

// cutReader delivers data[:cut], then the rest, then io.EOF.
type cutReader struct {
	data  []byte
	cut   int
	phase int
}

func (r *cutReader) Read(p []byte) (int, error) {
	var chunk []byte
	switch r.phase {
	case 0:
		chunk = r.data[:r.cut]
	case 1:
		chunk = r.data[r.cut:]
	default:
		return 0, io.EOF
	}
	r.phase++
	if len(chunk) > len(p) {
		panic("cutReader: destination too small")
	}
	copy(p, chunk)
	return len(chunk), nil
}

var c01Templates = []string{
	"\xffA\xffA\n\n\xffA",                         // 0: ⟨2⟩ blank ⟨1⟩
	"a\xffE\xffE\xffWb\xffA",                        // 1: a EOL EOL EOL|SP b ⟨1⟩
	"a\n#\xffA\n\xffA",                             // 2: paragraph interrupted by heading
	"[a]: b\n\xffA\xffA\xffA",                       // 3: definition followed by 3 free bytes
	"\xfe\x00a\n\xfe\xfe\x00a\n\xfe\xfe\x00a\n\xfe\n\n\xfe\x00a\xfe\xfe\x00a\xfe", // 4: NUL runs
	"- \xffA\n\n\n\xffA\r\n\xffA",                // 5: list, blank lines, CRLF
	"\xffW\xffA\xffW\xffW\xffA",                    // 6: whitespace around two bytes
	// thorough only:
	"\xffA\xffA\n\n\xffA\xffA",                    // 7
	"a\n#\xffA\xffA\n\xffA\xffA",                  // 8
	"\xffW\xffW\xffA\xffW\xffW\xffA\xffW",          // 9
	// streaming schedules (entries 2 and 3):
	"\xffA\xffE\xffE\xffA",                        // 10: byte, two line-ending bytes, byte
	"a\r\n\r\n\xffA\r\n",                          // 11: CRLF document
	"a\r\n\r\n\r\n\xffA\r\n\r\nc\r\n",              // 12: CRLF document with runs of blank lines
	"- a\r\r- \xffA\r\rb\r",                        // 13: bare-CR document, blank lines inside a block
	"```\r\xffA\r\r\r```\rb\r",                    // 14: bare-CR fenced code with blank lines
}

func H_C01_F(n, entry int) {
	c01(nondetBytes(n), entry)
}

func H_C01_T(idx, entry int) {
	c01(tmplBytes(c01Templates[idx]), entry)
}

func c01(in []byte, entry int) {
	orig := cloneBytes(in)
	n := len(orig)
	hasNul := false
	for _, c := range orig {
		if c == 0 {
			hasNul = true
		}
	}
	var blocks []*RootBlock
	if entry == 0 {
		if !hasNul {
			vfreezeBytes(in)
		}
		blocks, _ = Parse(in)
		vunfreezeBytes(in)
	} else if entry == 4 {
		// in-memory Parse handed a sub-slice of a larger buffer: neither the visible
		// bytes nor the spare capacity behind them may be written, with or without NUL
		backing := make([]byte, 3*n+8)
		copy(backing, in)
		for i := n; i < len(backing); i++ {
			backing[i] = 0xAA
		}
		in = backing[:n]
		whole := cloneBytes(backing)
		blocks, _ = Parse(in)
		check(vsame(backing, whole), "C01.no-write.buffer")
	} else if entry == 1 {
		var err error
		blocks, _, err = parseStream(&oneShotReader{data: cloneBytes(in)})
		check(err == io.EOF, "C01.stream-eof")
	} else {
		// entry 2: streaming under a symbolic read schedule (chunk sizes, empty reads,
		// EOF together with the last data are solver variables; reader of C08)
		var err error
		if entry == 2 {
			blocks, _, err = parseStream(&schedReader{data: cloneBytes(in), limit: n})
		} else {
			// entry 3: the input arrives in two reads, cut at a solver-chosen point
			blocks, _, err = parseStream(&cutReader{data: cloneBytes(in), cut: vconcrete(nondetInt(0, n))})
		}
		check(err == io.EOF, "C01.stream-eof")
	}
	prevEnd := 0
	for _, b := range blocks {
		s, e := int(b.StartOffset), int(b.EndOffset)
		okRange := 0 <= s && s <= e && e <= n
		check(okRange, "C01.order.range")
		check(prevEnd <= s, "C01.order.sequence")
		if !okRange || prevEnd > s {
			continue
		}
		for j := prevEnd; j < s; j++ {
			check(classOK(orig[j], 'W'), "C01.gap-blank")
		}
		// Source == orig[s:e] with each NUL replaced by U+FFFD
		k := 0
		src := b.Source
		for j := s; j < e; j++ {
			c := orig[j]
			if c == 0 {
				if k+3 <= len(src) {
					check(vand(src[k] == 0xEF, vand(src[k+1] == 0xBF, src[k+2] == 0xBD)), "C01.source.nul")
				} else {
					check(false, "C01.source.len")
				}
				k += 3
			} else {
				if k < len(src) {
					check(src[k] == c, "C01.source.bytes")
				} else {
					check(false, "C01.source.len")
				}
				k++
			}
		}
		check(k == len(src), "C01.source.len")
		check(b.StartLine == 1+lineCountRef(orig[:s]), "C01.line")
		if !hasNul {
			check(e-s == len(src), "C01.len")
			if (entry == 0 || entry == 4) && len(src) > 0 && s < n {
				check(vaddrOf(src) == vaddrOf(in[s:]), "C01.alias")
			}
		}
		prevEnd = e
	}
	for j := prevEnd; j < n; j++ {
		check(classOK(orig[j], 'W'), "C01.gap-blank")
	}
	if entry == 0 && !hasNul {
		check(vsame(in, orig), "C01.no-write")
	}
	vdigest(dumpBlocks(blocks))
}
