//go:build verif

package commonmark

// C06 — canonical documents render to exactly the HTML they denote.

// H_C06(budget, flags): flags bit 0 = CRLF line endings, bit 1 = full spelling menus.
func H_C06(budget, flags int) {
	g := &cgen{budget: budget, maxDepth: 2, crlf: flags&1 != 0, rich: flags&2 != 0}
	doc, want := g.document(2)
	blocks, refs := Parse(cloneBytes(doc))
	got := renderWith(&HTMLRenderer{ReferenceMap: refs}, blocks)
	if !vsame(normHTML(got), normHTML(want)) {
		vnote("doc=" + string(doc))
		vnote("got=" + string(normHTML(got)))
		vnote("want=" + string(normHTML(want)))
	}
	check(vsame(normHTML(got), normHTML(want)), "C06.html")
	vdigest(got)
}

// H_C06_esc: k arbitrary ASCII punctuation bytes, each backslash-escaped, render as
// that text, HTML-escaped.
func H_C06_esc(k, _ int) {
	doc := []byte{'a'}
	want := []byte("<p>a")
	for i := 0; i < k; i++ {
		p := nondetByte()
		assume(classOK(p, 'P'))
		doc = append(doc, '\\', p)
		want = escText(want, p)
	}
	doc = append(doc, 'b', '\n')
	want = append(want, "b</p>"...)
	blocks, refs := Parse(doc)
	got := renderWith(&HTMLRenderer{ReferenceMap: refs}, blocks)
	check(vsame(got, want), "C06.escapes-literal")
	vdigest(got)
}

// H_C06_verbatim: code block contents come out verbatim (HTML-escaped): fenced
// (mode 0) and indented (mode 1) code with k free content bytes on one line.
func H_C06_verbatim(k, mode int) {
	var doc, want []byte
	want = append(want, "<pre><code>"...)
	if mode == 0 {
		doc = append(doc, "```\n"...)
	} else {
		doc = append(doc, "    "...)
	}
	for i := 0; i < k; i++ {
		c := nondetByte()
		assume(classOK(c, 'X'))
		assume(c != 0)
		if i == 0 {
			assume(vand(c != ' ', c != '\t'))
			if mode == 0 {
				assume(c != '`')
			}
		}
		if i == k-1 && mode == 1 {
			assume(vand(c != ' ', c != '\t')) // a whitespace-only tail would make the line blank
		}
		doc = append(doc, c)
		want = escText(want, c)
	}
	doc = append(doc, '\n')
	want = append(want, '\n')
	if mode == 0 {
		doc = append(doc, "```\n"...)
	}
	want = append(want, "</code></pre>"...)
	blocks, refs := Parse(doc)
	got := renderWith(&HTMLRenderer{ReferenceMap: refs}, blocks)
	check(vsame(got, want), "C06.code-verbatim")
	vdigest(got)
}
