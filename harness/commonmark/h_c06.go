//go:build verif

package commonmark

// C06 — canonical documents render to exactly the HTML they denote.

// H_C06(budget, flags): flags bit 0 = CRLF line endings, bit 1 = full spelling menus,
// bit 2 = plain inline content (words, soft and hard breaks only), which
// lets the node budget go into block structure.
func H_C06(budget, flags int) {
	g := &cgen{budget: budget, maxDepth: 2, crlf: flags&1 != 0, rich: flags&2 != 0, plain: flags&4 != 0}
	doc, want := g.document(2)
	blocks, refs := Parse(cloneBytes(doc))
	got := renderWith(&HTMLRenderer{ReferenceMap: refs}, blocks)
	if !vsame(normHTML(got), normHTML(want)) {
		vnote("doc=" + string(doc))
		vnote("got=" + string(normHTML(got)))
		vnote("want=" + string(normHTML(want)))
	}
	check(vsame(normHTML(got), normHTML(want)), "C06.html")
	vdigest(got)
}

// H_C06_esc: k arbitrary ASCII punctuation bytes, each backslash-escaped, render as
// that text, HTML-escaped.
func H_C06_esc(k, _ int) {
	doc := []byte{'a'}
	want := []byte("<p>a")
	for i := 0; i < k; i++ {
		p := nondetByte()
		assume(classOK(p, 'P'))
		doc = append(doc, '\\', p)
		want = escText(want, p)
	}
	doc = append(doc, 'b', '\n')
	want = append(want, "b</p>"...)
	blocks, refs := Parse(doc)
	got := renderWith(&HTMLRenderer{ReferenceMap: refs}, blocks)
	check(vsame(got, want), "C06.escapes-literal")
	vdigest(got)
}

// H_C06_verbatim: code block contents come out verbatim (HTML-escaped): fenced
// (mode 0) and indented (mode 1) code with k free content bytes on one line.
func H_C06_verbatim(k, mode int) {
	var doc, want []byte
	want = append(want, "<pre><code>"...)
	if mode == 0 {
		doc = append(doc, "```\n"...)
	} else {
		doc = append(doc, "    "...)
	}
	for i := 0; i < k; i++ {
		c := nondetByte()
		assume(classOK(c, 'X'))
		assume(c != 0)
		if i == 0 {
			assume(vand(c != ' ', c != '\t'))
			if mode == 0 {
				assume(c != '`')
			}
		}
		if i == k-1 && mode == 1 {
			assume(vand(c != ' ', c != '\t')) // a whitespace-only tail would make the line blank
		}
		doc = append(doc, c)
		want = escText(want, c)
	}
	doc = append(doc, '\n')
	want = append(want, '\n')
	if mode == 0 {
		doc = append(doc, "```\n"...)
	}
	want = append(want, "</code></pre>"...)
	blocks, refs := Parse(doc)
	got := renderWith(&HTMLRenderer{ReferenceMap: refs}, blocks)
	check(vsame(got, want), "C06.code-verbatim")
	vdigest(got)
}

// H_C06_tabs(form, _): the column / tab arithmetic of C06. The line is
//   P  k spaces  TAB  m spaces  "w"        (k, m in 0..3 are solver variables)
// behind a container prefix P, and the expected reading is computed from the spec's
// tab rule (tab stops every four columns; a block quote marker takes one column of
// following whitespace; a list marker followed by 1-4 columns of whitespace sets the
// content column there, by 5 or more sets it one column after the marker and the
// rest is an indented code block):
//   form 0: top level                     form 1: ">" block quote
//   form 2: "-" list item                 form 3: "> " then the run (quote, run starts at column 2)
//   form 4: "- >" (quote inside a list item, marker at column 2)
// The content is a paragraph "w" when fewer than four columns of indentation remain
// and an indented code block holding the remaining columns as spaces otherwise.
func H_C06_tabs(form, _ int) {
	k := vconcrete(nondetInt(0, 3))
	m := vconcrete(nondetInt(0, 3))
	var doc []byte
	col := 0 // column after the prefix, before the run
	switch form {
	case 1:
		doc = append(doc, '>')
		col = 1
	case 2:
		doc = append(doc, '-')
		col = 1
	case 3:
		doc = append(doc, "> "...)
		col = 2
	case 4:
		doc = append(doc, "- >"...)
		col = 3
	}
	start := col
	for i := 0; i < k; i++ {
		doc = append(doc, ' ')
		col++
	}
	doc = append(doc, '\t')
	col += 4 - col%4
	for i := 0; i < m; i++ {
		doc = append(doc, ' ')
		col++
	}
	doc = append(doc, 'w', '\n')
	width := col - start // columns of whitespace in the run
	open, cl := "", ""
	indent := width // columns of indentation seen by the contained block
	switch form {
	case 1, 4:
		indent = width - 1 // the quote marker takes one column
		open, cl = "<blockquote>", "</blockquote>"
		if form == 4 {
			open, cl = "<ul><li><blockquote>", "</blockquote></li></ul>"
		}
	case 3:
		open, cl = "<blockquote>", "</blockquote>"
	case 2:
		open, cl = "<ul><li>", "</li></ul>"
		if width <= 4 {
			indent = 0 // content column = marker + width
		} else {
			indent = width - 1 // content column one past the marker
		}
	}
	var want []byte
	want = append(want, open...)
	if indent >= 4 {
		want = append(want, "<pre><code>"...)
		for i := 0; i < indent-4; i++ {
			want = append(want, ' ')
		}
		want = append(want, "w\n</code></pre>"...)
	} else if form == 2 {
		want = append(want, 'w') // tight list item: no <p>
	} else {
		want = append(want, "<p>w</p>"...)
	}
	want = append(want, cl...)
	blocks, refs := Parse(cloneBytes(doc))
	got := renderWith(&HTMLRenderer{ReferenceMap: refs}, blocks)
	if !vsame(normHTML(got), normHTML(want)) {
		vnote("doc=" + string(doc))
		vnote("got=" + string(normHTML(got)))
		vnote("want=" + string(normHTML(want)))
	}
	check(vsame(normHTML(got), normHTML(want)), "C06.tab-columns")
	vdigest(got)
}

// H_C06_loose(first, _): tight / loose decision for a two-item bullet list whose first
// item starts with a block other than a paragraph (first 0: indented code, 1: fenced
// code, 2: ATX heading, 3: block quote, 4: a paragraph for reference). The solver
// chooses whether a blank line separates the items and whether the first item holds a
// second block after a blank line; the list is loose exactly when one of the two is
// the case, and then every paragraph of the list's items is wrapped in <p>.
func H_C06_loose(first, _ int) {
	sep := nondetBool()
	second := nondetBool()
	w := nondetByte()
	assume(isL(w))
	var doc, item []byte
	switch first {
	case 0:
		doc = append(doc, "-     c\n"...)
		item = append(item, "<pre><code>c\n</code></pre>"...)
	case 1:
		doc = append(doc, "- ```\n  c\n  ```\n"...)
		item = append(item, "<pre><code>c\n</code></pre>"...)
	case 2:
		doc = append(doc, "- # h\n"...)
		item = append(item, "<h1>h</h1>"...)
	case 3:
		doc = append(doc, "- > q\n"...)
		item = append(item, "<blockquote><p>q</p></blockquote>"...)
	default:
		doc = append(doc, "- p\n"...)
	}
	loose := sep || second
	if first == 4 {
		if loose {
			item = append(item, "<p>p</p>"...)
		} else {
			item = append(item, 'p')
		}
	}
	if second {
		doc = append(doc, "\n  s\n"...)
		item = append(item, "<p>s</p>"...)
	}
	if sep {
		doc = append(doc, '\n')
	}
	doc = append(doc, "- "...)
	doc = append(doc, w, '\n')
	var want []byte
	want = append(want, "<ul><li>"...)
	want = append(want, item...)
	want = append(want, "</li><li>"...)
	if loose {
		want = append(want, "<p>"...)
		want = append(want, w)
		want = append(want, "</p>"...)
	} else {
		want = append(want, w)
	}
	want = append(want, "</li></ul>"...)
	blocks, refs := Parse(cloneBytes(doc))
	got := renderWith(&HTMLRenderer{ReferenceMap: refs}, blocks)
	if !vsame(normHTML(got), normHTML(want)) {
		vnote("doc=" + string(doc))
		vnote("got=" + string(normHTML(got)))
		vnote("want=" + string(normHTML(want)))
	}
	check(vsame(normHTML(got), normHTML(want)), "C06.loose-tight")
	vdigest(got)
}

// H_C06_loose_nested(kind, _): looseness must not leak between nesting levels. The
// document is a two-item outer list whose first item holds a paragraph and a nested
// one-item list; the nested item holds a paragraph and a second block of the given
// kind (0 ATX heading, 1 thematic break, 2 empty fenced code, 3 fenced code with a
// line, 4 paragraph, 5 setext heading). The solver chooses whether a blank line
// separates the nested item's two blocks and whether one separates the outer items:
// the nested list is loose exactly in the first case, the outer list exactly in the
// second (CommonMark 0.30 §5.3: "constituent list items are separated by blank lines,
// or any of its constituent list items directly contain two block-level elements with
// a blank line between them").
func H_C06_loose_nested(kind, _ int) {
	innerBlank := nondetBool()
	sep := nondetBool()
	w := nondetByte()
	assume(isL(w))
	if kind >= 4 {
		assume(innerBlank) // without the blank line the text would continue the paragraph
	}
	var doc, second []byte
	doc = append(doc, "- a\n  - b\n"...)
	if innerBlank {
		doc = append(doc, '\n')
	}
	switch kind {
	case 0:
		doc = append(doc, "    # c\n"...)
		second = []byte("<h1>c</h1>")
	case 1:
		doc = append(doc, "    ***\n"...)
		second = []byte("<hr>")
	case 2:
		doc = append(doc, "    ```\n    ```\n"...)
		second = []byte("<pre><code></code></pre>")
	case 3:
		doc = append(doc, "    ```\n    c\n    ```\n"...)
		second = []byte("<pre><code>c\n</code></pre>")
	case 4:
		doc = append(doc, "    c\n"...)
		second = []byte("<p>c</p>")
	default:
		doc = append(doc, "    c\n    ===\n"...)
		second = []byte("<h1>c</h1>")
	}
	if sep {
		doc = append(doc, '\n')
	}
	doc = append(doc, "- "...)
	doc = append(doc, w, '\n')
	para := func(dst []byte, loose bool, text ...byte) []byte {
		if loose {
			dst = append(dst, "<p>"...)
		}
		dst = append(dst, text...)
		if loose {
			dst = append(dst, "</p>"...)
		}
		return dst
	}
	var want []byte
	want = append(want, "<ul><li>"...)
	want = para(want, sep, 'a')
	want = append(want, "<ul><li>"...)
	want = para(want, innerBlank, 'b')
	want = append(want, second...)
	want = append(want, "</li></ul></li><li>"...)
	want = para(want, sep, w)
	want = append(want, "</li></ul>"...)
	blocks, refs := Parse(cloneBytes(doc))
	got := renderWith(&HTMLRenderer{ReferenceMap: refs}, blocks)
	if !vsame(normHTML(got), normHTML(want)) {
		vnote("doc=" + string(doc))
		vnote("got=" + string(normHTML(got)))
		vnote("want=" + string(normHTML(want)))
	}
	check(vsame(normHTML(got), normHTML(want)), "C06.loose-nested")
	vdigest(got)
}

func escAttrByte(dst []byte, c byte) []byte {
	switch c {
	case '&':
		return append(dst, "&amp;"...)
	case '<':
		return append(dst, "&lt;"...)
	case '>':
		return append(dst, "&gt;"...)
	case '"':
		return append(dst, "&#34;"...)
	case '\'':
		return append(dst, "&#39;"...)
	}
	return append(dst, c)
}

// H_C06_esc_ctx(k, ctx): "backslash-escaping every punctuation character of a text
// yields that text literally" in every place where CommonMark processes backslash
// escapes, not only in paragraph text: k arbitrary ASCII punctuation bytes, each
// backslash-escaped, between the letters a and b, placed in
//   0 a double-quoted inline link title      1 a single-quoted definition title
//   2 a parenthesised image title            3 link text
//   4 the info string of a tilde fence       5 emphasis content
//   6 ATX heading content                    7 a <...> link destination
// Expected: the k characters themselves, escaped for HTML text / attribute context
// (the destination additionally percent-encoded by the reference normaliser of C10).
func H_C06_esc_ctx(k, ctx int) {
	var md, text, attr, raw []byte
	md = append(md, 'a')
	text, attr, raw = append(text, 'a'), append(attr, 'a'), append(raw, 'a')
	for i := 0; i < k; i++ {
		p := nondetByte()
		assume(classOK(p, 'P'))
		md = append(md, '\\', p)
		text = escText(text, p)
		attr = escAttrByte(attr, p)
		raw = append(raw, p)
	}
	md = append(md, 'b')
	text, attr, raw = append(text, 'b'), append(attr, 'b'), append(raw, 'b')
	var doc, want []byte
	switch ctx {
	case 0:
		doc = append(append(append(doc, "[x](/u \""...), md...), "\")\n"...)
		want = append(append(append(want, "<p><a href=\"/u\" title=\""...), attr...), "\">x</a></p>"...)
	case 1:
		doc = append(append(append(doc, "[x]\n\n[x]: /u '"...), md...), "'\n"...)
		want = append(append(append(want, "<p><a href=\"/u\" title=\""...), attr...), "\">x</a></p>"...)
	case 2:
		doc = append(append(append(doc, "![x](/u ("...), md...), "))\n"...)
		want = append(append(append(want, "<p><img src=\"/u\" title=\""...), attr...), "\" alt=\"x\"></p>"...)
	case 3:
		doc = append(append(append(doc, '['), md...), "](/u)\n"...)
		want = append(append(append(want, "<p><a href=\"/u\">"...), text...), "</a></p>"...)
	case 4:
		doc = append(append(append(doc, "~~~ "...), md...), "\nx\n~~~\n"...)
		want = append(append(append(want, "<pre><code class=\"language-"...), attr...), "\">x\n</code></pre>"...)
	case 5:
		doc = append(append(append(doc, '*'), md...), "*\n"...)
		want = append(append(append(want, "<p><em>"...), text...), "</em></p>"...)
	case 6:
		doc = append(append(append(doc, "# "...), md...), '\n')
		want = append(append(append(want, "<h1>"...), text...), "</h1>"...)
	default:
		doc = append(append(append(doc, "[x](<"...), md...), ">)\n"...)
		want = append(want, "<p><a href=\""...)
		for _, c := range []byte(refNormalizeURI(string(raw))) {
			want = escAttrByte(want, c)
		}
		want = append(want, "\">x</a></p>"...)
	}
	blocks, refs := Parse(cloneBytes(doc))
	got := renderWith(&HTMLRenderer{ReferenceMap: refs}, blocks)
	// (a reference definition renders as nothing, but still takes part in the
	// blank-line join of the block list: compare modulo inter-block line endings)
	if !vsame(normHTML(got), normHTML(want)) {
		vnote("doc=" + string(doc))
		vnote("got=" + string(got))
		vnote("want=" + string(want))
	}
	check(vsame(normHTML(got), normHTML(want)), "C06.escapes-literal.context")
	vdigest(got)
}

// H_C06_markertab(form, _): a TAB between a list marker and the item's content, with
// the list at a container content column that is not a multiple of four. The first
// line is
//   P  M  k spaces  TAB  "foo"          (M is "-" or "7.", k in 0..1: solver variables)
// behind container prefix P (form 0 none, 1 "> ", 2 ">", 3 "- ", 4 "1. ", 5 " > "),
// followed by a blank line and a line "bar" indented - relative to the container - by
// the item's content offset W+N (d = 0) or by one column less (d = -1), where N is the
// width of the whitespace after the marker with the tab expanded to the next ABSOLUTE
// tab stop (1..4 columns: that is N; 5 or more: N = 1 and the rest belongs to an
// indented code block), as CommonMark 0.30 sections 2.2 and 5.2 say. With d = 0 "bar"
// is a second paragraph of the item, with d = -1 it follows the list.
func H_C06_markertab(form, _ int) {
	prefix := []string{"", "> ", ">", "- ", "1. ", " > "}[form]
	cont := []string{"", "> ", "> ", "  ", "   ", " > "}[form]
	blank := []string{"", ">", ">", "", "", " >"}[form]
	p0 := []int{0, 2, 1, 2, 3, 3}[form]
	ordered := nondetBool()
	k := vconcrete(nondetInt(0, 1))
	d := 0
	if nondetBool() {
		d = -1
	}
	marker := "-"
	if ordered {
		marker = "7."
	}
	e := p0 + len(marker)
	t := (e+k)/4*4 + 4
	w := t - e
	off := len(marker) + w // content offset of the item relative to the container
	codeFirst := false
	extra := 0
	if w >= 5 {
		off = len(marker) + 1
		codeFirst = true
		extra = w - 1 - 4
	}
	var doc []byte
	doc = append(doc, prefix+marker...)
	for i := 0; i < k; i++ {
		doc = append(doc, ' ')
	}
	doc = append(doc, "\tfoo\n"+blank+"\n"+cont...)
	for i := 0; i < off+d; i++ {
		doc = append(doc, ' ')
	}
	doc = append(doc, "bar\n"...)
	sp := func(n int) string {
		s := ""
		for i := 0; i < n; i++ {
			s += " "
		}
		return s
	}
	lo, lc := "<ul>", "</ul>"
	if ordered {
		lo, lc = "<ol start=\"7\">", "</ol>"
	}
	var inner string
	if d == 0 {
		if codeFirst {
			inner = lo + "<li><pre><code>" + sp(extra) + "foo\n</code></pre><p>bar</p></li>" + lc
		} else {
			inner = lo + "<li><p>foo</p><p>bar</p></li>" + lc
		}
	} else {
		if codeFirst {
			inner = lo + "<li><pre><code>" + sp(extra) + "foo\n</code></pre></li>" + lc
		} else {
			inner = lo + "<li>foo</li>" + lc
		}
		if rel := off + d; rel >= 4 {
			inner += "<pre><code>" + sp(rel-4) + "bar\n</code></pre>"
		} else {
			inner += "<p>bar</p>"
		}
	}
	var want string
	switch form {
	case 0:
		want = inner
	case 1, 2, 5:
		want = "<blockquote>" + inner + "</blockquote>"
	case 3:
		want = "<ul><li>" + inner + "</li></ul>"
	default:
		want = "<ol><li>" + inner + "</li></ol>"
	}
	blocks, refs := Parse(cloneBytes(doc))
	got := renderWith(&HTMLRenderer{ReferenceMap: refs}, blocks)
	if !vsame(normHTML(got), normHTML([]byte(want))) {
		vnote("doc=" + string(doc))
		vnote("got=" + string(normHTML(got)))
		vnote("want=" + string(normHTML([]byte(want))))
	}
	check(vsame(normHTML(got), normHTML([]byte(want))), "C06.marker-tab")
	vdigest(got)
}

// H_C06_codetrail(form, _): "Blank lines preceding or following an indented code block
// are not included in it" (CommonMark 0.30 section 4.4), whatever whitespace the blank
// lines are made of. The document is, behind container prefix P (form 0 none, 1 "> ",
// 2 " > ", 3 a "- " list item):
//   P "    a"  /  P + three bytes over {space, tab}  /  P  /  P "x"
// and must render as the code block "a" followed by the paragraph "x".
func H_C06_codetrail(form, _ int) {
	first := []string{"", "> ", " > ", "- "}[form]
	cont := []string{"", "> ", " > ", "  "}[form]
	blank := []string{"", ">", " >", ""}[form]
	var doc []byte
	doc = append(doc, first+"    a\n"+cont...)
	for i := 0; i < 3; i++ {
		c := nondetByte()
		assume(classOK(c, 'S'))
		doc = append(doc, c)
	}
	doc = append(doc, "\n"+blank+"\n"+cont+"x\n"...)
	inner := "<pre><code>a\n</code></pre><p>x</p>"
	want := inner
	switch form {
	case 1, 2:
		want = "<blockquote>" + inner + "</blockquote>"
	case 3:
		want = "<ul><li>" + inner + "</li></ul>"
	}
	blocks, refs := Parse(cloneBytes(doc))
	got := renderWith(&HTMLRenderer{ReferenceMap: refs}, blocks)
	if !vsame(normHTML(got), normHTML([]byte(want))) {
		vnote("doc=" + string(doc))
		vnote("got=" + string(normHTML(got)))
	}
	check(vsame(normHTML(got), normHTML([]byte(want))), "C06.code-trailing-blank")
	vdigest(got)
}


// H_C06_verbatim_in(k, form): "code block contents come out verbatim" inside
// containers: a fenced code block with one content line of k free bytes (any byte but
// NUL and line endings; not starting with a backtick, not ending in a space or tab so
// that the line is not blank) inside a bullet item (form 0), a block quote (1), an
// ordered item (2) and a quote inside a bullet item (3). In particular a TAB that
// begins the content stays a TAB: it starts exactly where the container's prefix ends
// and is not "partially consumed" in the sense of CommonMark 0.30 section 2.2.
func H_C06_verbatim_in(k, form int) {
	first := []string{"- ", "> ", "1. ", "- > "}[form]
	cont := []string{"  ", "> ", "   ", "  > "}[form]
	open := []string{"<ul><li>", "<blockquote>", "<ol><li>", "<ul><li><blockquote>"}[form]
	cl := []string{"</li></ul>", "</blockquote>", "</li></ol>", "</blockquote></li></ul>"}[form]
	var doc, want []byte
	doc = append(doc, first+"```\n"+cont...)
	want = append(want, open+"<pre><code>"...)
	for i := 0; i < k; i++ {
		c := nondetByte()
		assume(classOK(c, 'X'))
		assume(c != 0)
		if i == 0 {
			assume(c != '`')
		}
		if i == k-1 {
			assume(vand(c != ' ', c != '\t'))
		}
		doc = append(doc, c)
		want = escText(want, c)
	}
	doc = append(doc, "\n"+cont+"```\n"...)
	want = append(want, "\n</code></pre>"+cl...)
	blocks, refs := Parse(cloneBytes(doc))
	got := renderWith(&HTMLRenderer{ReferenceMap: refs}, blocks)
	if !vsame(normHTML(got), normHTML(want)) {
		vnote("doc=" + string(doc))
		vnote("got=" + string(got))
	}
	check(vsame(normHTML(got), normHTML(want)), "C06.code-verbatim.container")
	vdigest(got)
}
