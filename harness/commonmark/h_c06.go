//go:build verif

package commonmark

// C06 — canonical documents render to exactly the HTML they denote.

// H_C06(budget, flags): flags bit 0 = CRLF line endings, bit 1 = full spelling menus,
// bit 2 = plain inline content (words, soft and hard breaks only), which
// lets the node budget go into block structure.
func H_C06(budget, flags int) {
	g := &cgen{budget: budget, maxDepth: 2, crlf: flags&1 != 0, rich: flags&2 != 0, plain: flags&4 != 0}
	doc, want := g.document(2)
	blocks, refs := Parse(cloneBytes(doc))
	got := renderWith(&HTMLRenderer{ReferenceMap: refs}, blocks)
	if !vsame(normHTML(got), normHTML(want)) {
		vnote("doc=" + string(doc))
		vnote("got=" + string(normHTML(got)))
		vnote("want=" + string(normHTML(want)))
	}
	check(vsame(normHTML(got), normHTML(want)), "C06.html")
	vdigest(got)
}

// H_C06_esc: k arbitrary ASCII punctuation bytes, each backslash-escaped, render as
// that text, HTML-escaped.
func H_C06_esc(k, _ int) {
	doc := []byte{'a'}
	want := []byte("<p>a")
	for i := 0; i < k; i++ {
		p := nondetByte()
		assume(classOK(p, 'P'))
		doc = append(doc, '\\', p)
		want = escText(want, p)
	}
	doc = append(doc, 'b', '\n')
	want = append(want, "b</p>"...)
	blocks, refs := Parse(doc)
	got := renderWith(&HTMLRenderer{ReferenceMap: refs}, blocks)
	check(vsame(got, want), "C06.escapes-literal")
	vdigest(got)
}

// H_C06_verbatim: code block contents come out verbatim (HTML-escaped): fenced
// (mode 0) and indented (mode 1) code with k free content bytes on one line.
func H_C06_verbatim(k, mode int) {
	var doc, want []byte
	want = append(want, "<pre><code>"...)
	if mode == 0 {
		doc = append(doc, "```\n"...)
	} else {
		doc = append(doc, "    "...)
	}
	for i := 0; i < k; i++ {
		c := nondetByte()
		assume(classOK(c, 'X'))
		assume(c != 0)
		if i == 0 {
			assume(vand(c != ' ', c != '\t'))
			if mode == 0 {
				assume(c != '`')
			}
		}
		if i == k-1 && mode == 1 {
			assume(vand(c != ' ', c != '\t')) // a whitespace-only tail would make the line blank
		}
		doc = append(doc, c)
		want = escText(want, c)
	}
	doc = append(doc, '\n')
	want = append(want, '\n')
	if mode == 0 {
		doc = append(doc, "```\n"...)
	}
	want = append(want, "</code></pre>"...)
	blocks, refs := Parse(doc)
	got := renderWith(&HTMLRenderer{ReferenceMap: refs}, blocks)
	check(vsame(got, want), "C06.code-verbatim")
	vdigest(got)
}

// H_C06_tabs(form, _): the column / tab arithmetic of C06. The line is
//   P  k spaces  TAB  m spaces  "w"        (k, m in 0..3 are solver variables)
// behind a container prefix P, and the expected reading is computed from the spec's
// tab rule (tab stops every four columns; a block quote marker takes one column of
// following whitespace; a list marker followed by 1-4 columns of whitespace sets the
// content column there, by 5 or more sets it one column after the marker and the
// rest is an indented code block):
//   form 0: top level                     form 1: ">" block quote
//   form 2: "-" list item                 form 3: "> " then the run (quote, run starts at column 2)
//   form 4: "- >" (quote inside a list item, marker at column 2)
// The content is a paragraph "w" when fewer than four columns of indentation remain
// and an indented code block holding the remaining columns as spaces otherwise.
func H_C06_tabs(form, _ int) {
	k := vconcrete(nondetInt(0, 3))
	m := vconcrete(nondetInt(0, 3))
	var doc []byte
	col := 0 // column after the prefix, before the run
	switch form {
	case 1:
		doc = append(doc, '>')
		col = 1
	case 2:
		doc = append(doc, '-')
		col = 1
	case 3:
		doc = append(doc, "> "...)
		col = 2
	case 4:
		doc = append(doc, "- >"...)
		col = 3
	}
	start := col
	for i := 0; i < k; i++ {
		doc = append(doc, ' ')
		col++
	}
	doc = append(doc, '\t')
	col += 4 - col%4
	for i := 0; i < m; i++ {
		doc = append(doc, ' ')
		col++
	}
	doc = append(doc, 'w', '\n')
	width := col - start // columns of whitespace in the run
	open, cl := "", ""
	indent := width // columns of indentation seen by the contained block
	switch form {
	case 1, 4:
		indent = width - 1 // the quote marker takes one column
		open, cl = "<blockquote>", "</blockquote>"
		if form == 4 {
			open, cl = "<ul><li><blockquote>", "</blockquote></li></ul>"
		}
	case 3:
		open, cl = "<blockquote>", "</blockquote>"
	case 2:
		open, cl = "<ul><li>", "</li></ul>"
		if width <= 4 {
			indent = 0 // content column = marker + width
		} else {
			indent = width - 1 // content column one past the marker
		}
	}
	var want []byte
	want = append(want, open...)
	if indent >= 4 {
		want = append(want, "<pre><code>"...)
		for i := 0; i < indent-4; i++ {
			want = append(want, ' ')
		}
		want = append(want, "w\n</code></pre>"...)
	} else if form == 2 {
		want = append(want, 'w') // tight list item: no <p>
	} else {
		want = append(want, "<p>w</p>"...)
	}
	want = append(want, cl...)
	blocks, refs := Parse(cloneBytes(doc))
	got := renderWith(&HTMLRenderer{ReferenceMap: refs}, blocks)
	if !vsame(normHTML(got), normHTML(want)) {
		vnote("doc=" + string(doc))
		vnote("got=" + string(normHTML(got)))
		vnote("want=" + string(normHTML(want)))
	}
	check(vsame(normHTML(got), normHTML(want)), "C06.tab-columns")
	vdigest(got)
}

// H_C06_loose(first, _): tight / loose decision for a two-item bullet list whose first
// item starts with a block other than a paragraph (first 0: indented code, 1: fenced
// code, 2: ATX heading, 3: block quote, 4: a paragraph for reference). The solver
// chooses whether a blank line separates the items and whether the first item holds a
// second block after a blank line; the list is loose exactly when one of the two is
// the case, and then every paragraph of the list's items is wrapped in <p>.
func H_C06_loose(first, _ int) {
	sep := nondetBool()
	second := nondetBool()
	w := nondetByte()
	assume(isL(w))
	var doc, item []byte
	switch first {
	case 0:
		doc = append(doc, "-     c\n"...)
		item = append(item, "<pre><code>c\n</code></pre>"...)
	case 1:
		doc = append(doc, "- ```\n  c\n  ```\n"...)
		item = append(item, "<pre><code>c\n</code></pre>"...)
	case 2:
		doc = append(doc, "- # h\n"...)
		item = append(item, "<h1>h</h1>"...)
	case 3:
		doc = append(doc, "- > q\n"...)
		item = append(item, "<blockquote><p>q</p></blockquote>"...)
	default:
		doc = append(doc, "- p\n"...)
	}
	loose := sep || second
	if first == 4 {
		if loose {
			item = append(item, "<p>p</p>"...)
		} else {
			item = append(item, 'p')
		}
	}
	if second {
		doc = append(doc, "\n  s\n"...)
		item = append(item, "<p>s</p>"...)
	}
	if sep {
		doc = append(doc, '\n')
	}
	doc = append(doc, "- "...)
	doc = append(doc, w, '\n')
	var want []byte
	want = append(want, "<ul><li>"...)
	want = append(want, item...)
	want = append(want, "</li><li>"...)
	if loose {
		want = append(want, "<p>"...)
		want = append(want, w)
		want = append(want, "</p>"...)
	} else {
		want = append(want, w)
	}
	want = append(want, "</li></ul>"...)
	blocks, refs := Parse(cloneBytes(doc))
	got := renderWith(&HTMLRenderer{ReferenceMap: refs}, blocks)
	if !vsame(normHTML(got), normHTML(want)) {
		vnote("doc=" + string(doc))
		vnote("got=" + string(normHTML(got)))
		vnote("want=" + string(normHTML(want)))
	}
	check(vsame(normHTML(got), normHTML(want)), "C06.loose-tight")
	vdigest(got)
}

// H_C06_loose_nested(kind, _): looseness must not leak between nesting levels. The
// document is a two-item outer list whose first item holds a paragraph and a nested
// one-item list; the nested item holds a paragraph and a second block of the given
// kind (0 ATX heading, 1 thematic break, 2 empty fenced code, 3 fenced code with a
// line, 4 paragraph, 5 setext heading). The solver chooses whether a blank line
// separates the nested item's two blocks and whether one separates the outer items:
// the nested list is loose exactly in the first case, the outer list exactly in the
// second (CommonMark 0.30 §5.3: "constituent list items are separated by blank lines,
// or any of its constituent list items directly contain two block-level elements with
// a blank line between them").
func H_C06_loose_nested(kind, _ int) {
	innerBlank := nondetBool()
	sep := nondetBool()
	w := nondetByte()
	assume(isL(w))
	if kind >= 4 {
		assume(innerBlank) // without the blank line the text would continue the paragraph
	}
	var doc, second []byte
	doc = append(doc, "- a\n  - b\n"...)
	if innerBlank {
		doc = append(doc, '\n')
	}
	switch kind {
	case 0:
		doc = append(doc, "    # c\n"...)
		second = []byte("<h1>c</h1>")
	case 1:
		doc = append(doc, "    ***\n"...)
		second = []byte("<hr>")
	case 2:
		doc = append(doc, "    ```\n    ```\n"...)
		second = []byte("<pre><code></code></pre>")
	case 3:
		doc = append(doc, "    ```\n    c\n    ```\n"...)
		second = []byte("<pre><code>c\n</code></pre>")
	case 4:
		doc = append(doc, "    c\n"...)
		second = []byte("<p>c</p>")
	default:
		doc = append(doc, "    c\n    ===\n"...)
		second = []byte("<h1>c</h1>")
	}
	if sep {
		doc = append(doc, '\n')
	}
	doc = append(doc, "- "...)
	doc = append(doc, w, '\n')
	para := func(dst []byte, loose bool, text ...byte) []byte {
		if loose {
			dst = append(dst, "<p>"...)
		}
		dst = append(dst, text...)
		if loose {
			dst = append(dst, "</p>"...)
		}
		return dst
	}
	var want []byte
	want = append(want, "<ul><li>"...)
	want = para(want, sep, 'a')
	want = append(want, "<ul><li>"...)
	want = para(want, innerBlank, 'b')
	want = append(want, second...)
	want = append(want, "</li></ul></li><li>"...)
	want = para(want, sep, w)
	want = append(want, "</li></ul>"...)
	blocks, refs := Parse(cloneBytes(doc))
	got := renderWith(&HTMLRenderer{ReferenceMap: refs}, blocks)
	if !vsame(normHTML(got), normHTML(want)) {
		vnote("doc=" + string(doc))
		vnote("got=" + string(normHTML(got)))
		vnote("want=" + string(normHTML(want)))
	}
	check(vsame(normHTML(got), normHTML(want)), "C06.loose-nested")
	vdigest(got)
}
