//go:build verif

package commonmark

// Unit harness of C15 (names unexported identifiers of the library; if it stops
// type-checking against the working tree it is skipped, see DESIGN.md §13.2).

func H_C15_setext(n, _ int) {
	line, body := nondetLine(n)
	if body > 0 {
		assume(!isST(line[0]))
	}
	check(parseSetextHeadingUnderline(line) == refSetext(line[:body]), "C15.setext")
}
