//go:build verif

package commonmark

// Helpers shared by the commonmark and format harness packages (this file is
// injected into both; the package clause is rewritten for format).

func cloneBytes(b []byte) []byte {
	c := make([]byte, len(b))
	copy(c, b)
	return c
}

func isL(b byte) bool  { return vor(vand('a' <= b, b <= 'z'), vand('A' <= b, b <= 'Z')) }
func isD(b byte) bool  { return vand('0' <= b, b <= '9') }
func isHi(b byte) bool { return b >= 0x80 }

// classOK reports (without forking) whether b lies in the named class.
func classOK(b byte, cls byte) bool {
	switch cls {
	case 'A':
		return true
	case 'L':
		return isL(b)
	case 'D':
		return isD(b)
	case 'H':
		return isHi(b)
	case 'E':
		return vor(b == '\n', b == '\r')
	case 'S':
		return vor(b == ' ', b == '\t')
	case 'W':
		return vor(vor(b == ' ', b == '\t'), vor(b == '\n', b == '\r'))
	case 'P':
		return vor(vor(vand('!' <= b, b <= '/'), vand(':' <= b, b <= '@')), vor(vand('[' <= b, b <= '`'), vand('{' <= b, b <= '~')))
	case 'X': // no line ending
		return vand(b != '\n', b != '\r')
	case 'T': // tab-free, no CR
		return vand(b != '\t', b != '\r')
	}
	panic("bad class")
}

func itoa(n int) string {
	if n == 0 {
		return "0"
	}
	neg := n < 0
	if neg {
		n = -n
	}
	var b [24]byte
	i := len(b)
	for n > 0 {
		i--
		b[i] = byte('0' + n%10)
		n /= 10
	}
	if neg {
		i--
		b[i] = '-'
	}
	return string(b[i:])
}

// eolToLF maps CRLF and CR to LF.
func eolToLF(s []byte) []byte {
	out := make([]byte, 0, len(s))
	for i := 0; i < len(s); i++ {
		if s[i] == '\r' {
			out = append(out, '\n')
			if i+1 < len(s) && s[i+1] == '\n' {
				i++
			}
		} else {
			out = append(out, s[i])
		}
	}
	return out
}

// crToLF maps every CR to LF without pairing it with a following LF. It is the
// comparison map for a document whose line endings are all bare CRs: such an input
// contains no CRLF, so a CR LF in its output is a copied CR followed by a line ending
// the renderer generated - two line endings, not one.
func crToLF(s []byte) []byte {
	out := make([]byte, 0, len(s))
	for i := 0; i < len(s); i++ {
		if s[i] == '\r' {
			out = append(out, '\n')
		} else {
			out = append(out, s[i])
		}
	}
	return out
}

func hasPrefixAt(s []byte, i int, p string) bool {
	if i+len(p) > len(s) {
		return false
	}
	for k := 0; k < len(p); k++ {
		if s[i+k] != p[k] {
			return false
		}
	}
	return true
}

// normHTML deletes line endings adjacent to tags outside <pre> (insignificant
// inter-block whitespace) and trims.
func normHTML(s []byte) []byte {
	s = eolToLF(s)
	var out []byte
	inPre := false
	for i := 0; i < len(s); i++ {
		if hasPrefixAt(s, i, "<pre>") {
			inPre = true
		}
		if hasPrefixAt(s, i, "</pre>") {
			inPre = false
		}
		if s[i] == '\n' && !inPre {
			prev := byte('>')
			if len(out) > 0 {
				prev = out[len(out)-1]
			}
			next := byte('<')
			j := i + 1
			for j < len(s) && s[j] == '\n' {
				j++
			}
			if j < len(s) {
				next = s[j]
			}
			if prev == '>' || next == '<' {
				continue
			}
		}
		out = append(out, s[i])
	}
	// trim ASCII whitespace
	a, b := 0, len(out)
	for a < b && (out[a] == ' ' || out[a] == '\n' || out[a] == '\t') {
		a++
	}
	for b > a && (out[b-1] == ' ' || out[b-1] == '\n' || out[b-1] == '\t') {
		b--
	}
	return out[a:b]
}

