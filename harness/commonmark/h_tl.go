//go:build verif

package commonmark

// The shared template library TL (DESIGN.md §3.2): one template per anchored
// mechanism. "\xffA" is a fully unconstrained byte; other classes see classOK.

const hA = "\xffA"
const hL = "\xffL"
const hD = "\xffD"
const hH = "\xffH"

// hT: space, tab or backslash; hY: space or the letter x
const hT = "\xfe \t\\\xfe"
const hY = "\xfe x\xfe"

var tlTemplates = []string{
	// ---- inline (0..)
	"*" + hA + "*" + hA,                        // 0
	"**" + hA + hA + "**",                      // 1
	"_" + hA + hA + "_" + hA,                   // 2
	"*a **" + hA + "** c*",                     // 3
	hA + "*_*_*" + hA + hA + "*ax",             // 4
	"[" + hA + "](" + hA + ")",                 // 5
	"[" + hA + "](b \"" + hA + "\")",           // 6
	"[a](<" + hA + hA + ">)",                   // 7
	"![" + hA + hA + "](x)",                    // 8
	"[a](b\n\"" + hA + "\")",                   // 9
	"[" + hA + "]\n\n[a]: b",                   // 10
	"[a][" + hA + "]\n\n[b]: c",                // 11
	"[a][]\n\n[" + hA + "]: c",                 // 12
	"[a\n" + hA + "]\n\n[a b]: c",              // 13
	"[a][b\n" + hA + "]\n\n[b c]: d",           // 14
	"> [a][b\n> " + hA + "]\n\n[b c]: d",       // 15
	"\\" + hH + hH,                             // 16
	"\\\xfe\x00\xfea",                          // 17
	"`" + hA + hA + "`",                        // 18
	"``" + hA + hA + "``",                      // 19
	"`a\n" + hA + "`",                          // 20
	"<" + hA + hA + hA + ">",                   // 21
	"<a " + hA + hA + ">",                      // 22
	"<!--" + hA + hA + "-->",                   // 23
	"<?" + hA + "?>",                           // 24
	"<![CDATA[" + hA + "]]>",                   // 25
	"&" + hA + hA + hA + ";",                   // 26
	"&#" + hA + hA + ";",                       // 27
	"&#x" + hA + hA + ";",                      // 28
	"a" + hA + hA + "\nb",                      // 29
	"a\\" + hA + "b",                           // 30
	// ---- block (31..)
	"#" + hA + hA + hA + "\n",                  // 31
	"# " + hA + hA + "#",                       // 32
	hA + hA + "\n==",                           // 33
	hA + hA + "\n--",                           // 34
	"---" + hA,                                 // 35
	"```" + hA + hA + "\n" + hA + hA + "\n```", // 36
	"~~~\n" + hA + hA + hA,                     // 37
	"    " + hA + hA + "\n    " + hA + hA,      // 38
	"a\n  " + hA,                               // 39
	"<div>\n" + hA + hA,                        // 40
	"<" + hA + hA + hA + hA,                    // 41
	"[a]: " + hA + hA + "\n" + hA + hA,         // 42
	// ---- container (43..)
	"> " + hA + hA + hA,                        // 43
	">" + hA + "\n" + hA + hA,                  // 44
	"- " + hA + hA + hA,                        // 45
	"1. " + hA + hA + "\n   " + hA + hA,        // 46
	hD + hA + " " + hA + hA,                    // 47
	"> - " + hA + hA,                           // 48
	"- > " + hA + hA,                           // 49
	"- # " + hA + hA + "\n  " + hA + hA,        // 50
	"> [a](b\n> " + hA + hA + ")",              // 51
	"- a\n\n  " + hA + hA + "\n- b",            // 52
	"- a\n" + hA + "\n- b",                     // 53
	"> ```\n> " + hA + hA,                      // 54
	// ---- multi (55..)
	hA + hA + "\n\n" + hA + hA,                 // 55
	"a\xffE\xffE\xffWb" + hA,                   // 56
	"a\n#" + hA + hA + "\n" + hA + hA,          // 57
	"[a]: b\n" + hA + hA + hA,                  // 58
	// ---- added after the first seeded-change campaign (59..)
	"[a]: b\n" + hA + hA,                       // 59 definition directly followed by a line
	"[a]: b" + hA + "\n" + hA + "c",             // 60 byte before / after the line ending of a destination
	"[a]: b\n" + hA + " \n---",                 // 61 definition, paragraph line, setext underline
	"> [a]: " + hA + "\n> " + hA + "c",          // 62 the same inside a block quote
	"[a](b" + hA + "\n" + hA + "c)",             // 63 inline destination / title boundary at a line ending
	"- " + hA + "\n\n  " + hA + "\n",           // 64 list item with a second paragraph
	"[![[" + hA + "](b)](c)](d)",               // 65 link > image > link
	"![a *" + hA + "](b) c*",                   // 66 emphasis opener inside an image description, closer outside
	"[a *" + hA + "](b) c*",                    // 67 the same for a link
	"![" + hA + "]\n\n[a]: b",                  // 68 shortcut image reference
	"![" + hA + "][]\n\n[a]: b",                // 69 collapsed image reference
	"\xffS```" + hA + "\n" + hA,                // 70 indented fence
	"> \xffS\xffS```\n> " + hA,                 // 71 indented fence inside a block quote
	"![a][" + hA + "]\n\n[b]: c",               // 72 full image reference
	// ---- added after the second campaign's predictions (73..)
	"    a\n\n" + hA + hA,                       // 73 indented code, blank line, two free bytes
	"> # [a](" + hA + ")\n> " + hA,              // 74 heading ending in an inline link inside a container
	"-\n\n- " + hA + hA,                         // 75 loose list with an empty item
	"- a\n\n" + hA + " b",                       // 76 list, blank line, another marker
	">\t" + hA + hA,                             // 77 tab after a block quote marker
	"-\t" + hA + hA,                             // 78 tab after a list marker
	">\t>" + hA + hA,                            // 79 nested quote after a partially consumed tab
	">  \t" + hA + hA,                           // 80 spaces then a tab inside a container
	"see <a\n" + hA + "=\"x\">b</a>",             // 81 multi-line inline HTML tag
	"a\n  " + hA + " b",                         // 82 indented interrupting block
	"[a]: /x\n[a]: /y\n[" + hA + "]",             // 83 competing definitions followed by a use
	"[t][f\n" + hA + "]\n\n[f g]: /u",            // 84 full reference whose label spans two lines
	// ---- third campaign (85..)
	"[\x00a\x00]: /u\n\n[\x00" + hA + "\x00]",     // 85 label with two separate NULs
	"```" + hA + hA + "\nx",                     // 86 info string bytes
	"`a\n" + hA + "` t\nn",                      // 87 text after a multi-line code span
	"`a\n" + hA + "\nc`",                        // 88 three-line code span
	"[a]: b 't'\n[c]: d\n[" + hA + "]",           // 89 titled definition followed by more of the paragraph
	"x\x00y\n> " + hA + hA,                      // 90 NUL in a block closed by the line that opens the next one
	"> a\n  " + hA + hA,                         // 91 indented line after a block quote line
	"-     " + hA + "\n\n- b",                   // 92 item starting with indented code, blank line, next item
	"- [a]: b\n\n[" + hA + "]",                  // 93 definition inside a top-level list item
	"> a <b\n> " + hA + "=\"d\">x",               // 94 multi-line inline tag inside a block quote
	// ---- fourth campaign (95..): families, not witnesses
	"[" + hA + hA + "]: /u",                       // 95 definition whose label is two free bytes
	"> [" + hA + hA + "]: /u\n> t",                // 96 the same inside a block quote, followed by text
	"- # a `" + hA + "`\n  " + hA,                 // 97 heading ending in a code span inside a list item
	"> # a *" + hA + "*\n> " + hA,                 // 98 heading ending in emphasis inside a block quote
	"- # a &" + hA + "t;\n  c",                    // 99 heading ending in a character reference
	"> # a\\" + hA + "\n> c",                     // 100 heading ending in a backslash escape
	"- # <a:" + hA + ">\n  c",                     // 101 heading ending in an autolink
	"a" + hT + hT + hT + hT + "\nb",               // 102 trailing spaces / tabs / backslashes before a line ending
	"> a" + hT + hT + hT + "\n> b",                // 103 the same inside a block quote
	"\xfe*_\xfea\xfe*_\xfe\nb",                   // 104 delimiter run ending a line
	"a \xfe*_\xfe\nb\xfe*_\xfe",                  // 105 delimiter run after a space at the end of a line
	"a <" + hL + hL + ":" + hA + ">",              // 106 URI autolink as the last bytes of the input
	"a <b@c." + hA + ">",                          // 107 e-mail autolink as the last bytes of the input
	"```\na\n" + hY + hY + hY + hY + "\nb\n```",   // 108 whitespace-only line inside fenced code
	"    a\n    " + hY + hY + "\n    b",           // 109 whitespace-only line inside indented code
	"~~~ t\n" + hY + hY + "\n~~~",                 // 110 whitespace-only line as the only content
	"- a" + hT + hT + "\n  b",                     // 111 hard break candidates inside a list item
	"[a]: b\n  " + hA + "\n==",                    // 112 definition, indented line, setext underline
	"[a]: b\n " + hA + hA + "\n--",                // 113 the same with a two-byte line and a '-' underline
}

// tlQuick lists the templates with at most two holes... (kept for reference);
// the job tables in the checker select indices explicitly.
