//go:build verif

package commonmark

// Unit harness of C15 (names unexported identifiers of the library; if it stops
// type-checking against the working tree it is skipped, see DESIGN.md §13.2).

func H_C15_marker(n, _ int) {
	line, body := nondetLine(n)
	if body > 0 {
		assume(!isST(line[0]))
	}
	we, wd, wn := refMarker(line)
	m := parseListMarker(line)
	check(m.end == we, "C15.marker.end")
	if we > 0 && m.end == we {
		check(m.delim == wd, "C15.marker.delim")
		check(m.n == wn, "C15.marker.number")
		check(vand(m.n >= 0, m.n <= 999999999), "C15.marker.range")
	}
}
