//go:build verif

package commonmark

// C10 — HTML output is the canonical serialization of the tree in every configuration.

func filterNever(tag []byte) bool { return false }
func filterXmp(tag []byte) bool   { return string(tag) == "xmp" }
func filterBScript(tag []byte) bool {
	return string(tag) == "b" || string(tag) == "script"
}

var c10Filters = []func([]byte) bool{nil, FilterTagGFM, rejectAll, filterNever, filterXmp, filterBScript}

// attribute-emission templates (one per emission site), shared with C07
var attrTemplates = []string{
	"[a](" + hA + hA + ")",                  // 0
	"[a](b \"" + hA + hA + "\")",            // 1
	"![" + hA + hA + "](x)",                 // 2
	"![a](x '" + hA + "')",                  // 3
	"<a:" + hA + hA + ">",                   // 4
	"```" + hA + hA,                         // 5
	"&" + hA + hA + hA + ";",                // 6
	"&#x" + hA + hA + ";",                   // 7
	"[a]\n\n[a]: " + hA + hA + " \"" + hA + "\"", // 8
	"![*" + hA + "*&amp;" + hA + "](x)",     // 9 alt text with nested emphasis and a character reference
	"<" + hA + "@" + hA + "." + hA + ">",    // 10 e-mail autolink
	"1" + hD + ". a",                        // 11 ordered list start
	"- a\n\n  b" + hA + "\n- c",             // 12 loose list
	"a" + hA + hA + "\nb",                   // 13 soft / hard breaks
	"<b" + hA + hA + "\n\n<xmp>" + hA,       // 14 html block
	"a <b" + hA + "> <xmp" + hA + ">",       // 15 inline raw html
	"<div>\n<" + hA + "<" + hA + ">",         // 16 '<' inside a tag name in an HTML block
	"- <div>\n \t" + hA + "\n",              // 17 partially consumed tab inside an HTML block in a list item
	">\t<div>\n>\t" + hA,                    // 18 the same in a block quote
	"```" + hA + "&#32;" + hA + "\nx\n```",    // 19 info string with a character reference
	"[a](%4" + hA + hA + ")",                  // 20 percent escape followed by a free byte in a destination
	"[a](b " + hA + hA + ")",                  // 21 two-byte title incl. the empty titles "" '' ()
	"![&quot;" + hA + "&" + hA + "t;](x)",      // 22 character references in an image description
	"<http://a/%2" + hA + hA + ">",            // 23 percent escape in an autolink
	"> a <b\n> " + hA + "=\"d\">x</b>",         // 24 multi-line inline tag inside a block quote
	"- <!-- a\n  " + hA + " -->",              // 25 multi-line comment inside a list item
	"<div>\n<SCR" + hH + hH + "PT>x",           // 26 two free non-ASCII bytes inside an upper-case raw tag name (name-set predicates see ASCII lowercasing only)
	"a <!-- <B" + hH + "> -->",                 // 27 a non-ASCII byte ending a raw tag name inside a comment
}

func c10Input(kind, a int) []byte {
	switch kind {
	case 0:
		return nondetBytes(a)
	case 1:
		return tmplBytes(tlTemplates[a])
	case 3:
		return wideDoc(wideDocs[a][0], wideDocs[a][1])
	}
	return tmplBytes(attrTemplates[a])
}

// wideDoc: one root block with n children around a free byte c (any byte but a line
// ending): shape 0 a fenced code block of n lines, 1 a bullet list of n items, 2 a
// paragraph of n lines, 3 n nested block quotes. Sizes are chosen around the
// capacities a traversal might preallocate (64, 256).
var wideDocs = [][2]int{{0, 300}, {1, 300}, {2, 200}, {3, 70}, {0, 70}, {1, 66}, {2, 40}}

func wideDoc(shape, n int) []byte {
	c := nondetByte()
	assume(classOK(c, 'X'))
	var d []byte
	switch shape {
	case 0:
		d = append(d, "``` go\n"...)
		for i := 0; i < n; i++ {
			d = append(d, 'x', c, '\n')
		}
		d = append(d, "```\n"...)
	case 1:
		for i := 0; i < n; i++ {
			d = append(d, '-', ' ', 'x', c, '\n')
		}
	case 2:
		for i := 0; i < n; i++ {
			d = append(d, 'x', c, '\n')
		}
	default:
		for i := 0; i < n; i++ {
			d = append(d, '>', ' ')
		}
		d = append(d, 'x', c, '\n')
	}
	return d
}

// H_C10(kind*1000+a, filterIndex)
func H_C10(ka, fi int) {
	in := c10Input(ka/1000, ka%1000)
	blocks, refs := Parse(in)
	vfreeze()
	filter := c10Filters[fi]
	var d []byte
	for soft := SoftBreakPreserve; soft <= SoftBreakHarden; soft++ {
		for raw := 0; raw < 2; raw++ {
			r := &HTMLRenderer{ReferenceMap: refs, SoftBreakBehavior: soft, IgnoreRaw: raw == 1, FilterTag: filter}
			w := &sliceWriter{}
			check(r.Render(w, blocks) == nil, "C10.render-error")
			got := w.b
			want := refRender(refCfg{soft: soft, ignoreRaw: raw == 1, filter: filter}, blocks, refs)
			check(vsame(got, want), "C10.bytes-equal")
			if soft == SoftBreakPreserve {
				w2 := &sliceWriter{}
				r.Render(w2, blocks)
				check(vsame(w2.b, got), "C10.deterministic")
				check(vsame(renderWith(r, blocks), got), "C10.join")
				d = append(d, got...)
			}
		}
	}
	vunfreeze()
	vdigest(d)
}

// H_C10_join(n, _): the block-join rule on a long document - n paragraphs (the letter
// of each chosen from one symbolic byte) so that the rendered output crosses the
// usual buffer sizes (4 KiB, 8 KiB, ...): Render(blocks) equals the AppendBlock
// outputs joined by blank lines, byte for byte.
func H_C10_join(n, _ int) {
	c := nondetByte()
	assume(isL(c))
	var doc []byte
	for i := 0; i < n; i++ {
		doc = append(doc, "paragraph *number* `x` "...)
		doc = append(doc, c)
		doc = append(doc, "\nwith two lines\n\n"...)
	}
	blocks, refs := Parse(doc)
	r := &HTMLRenderer{ReferenceMap: refs}
	w := &sliceWriter{}
	check(r.Render(w, blocks) == nil, "C10.render-error")
	got := w.b
	var want []byte
	for i, b := range blocks {
		if i > 0 {
			want = append(want, "\n\n"...)
		}
		want = r.AppendBlock(want, b)
	}
	check(len(blocks) == n, "C10.join.blocks")
	check(vsame(got, want), "C10.join")
	vdigest(got[:64])
}

// H_C10_reuse(fi, _): ONE renderer value is used for a sequence of renders between
// which the caller changes its fields (as a server does): document A, document B with
// the same reference label bound to another destination and title, A again with other
// soft-break / raw settings and filter fi. Each output must be the canonical
// serialization of the tree rendered under the configuration in force at that call -
// nothing may be carried over from an earlier call.
func H_C10_reuse(fi, _ int) {
	x, y := nondetByte(), nondetByte()
	assume(vand(isL(x), isL(y)))
	var da, db []byte
	da = append(da, "[k]: /a"...)
	da = append(da, x)
	da = append(da, " 't'\n\nsee [k] ![i][k] <b>x</b>\nnext\n\n<xmp>\n"...)
	db = append(db, "[K]: /b"...)
	db = append(db, y)
	db = append(db, "\n\nsee [k] ![i][k] <i>x</i>\nnext\n\n<xmp>\n"...)
	ba, ra := Parse(da)
	bb, rb := Parse(db)
	r := &HTMLRenderer{ReferenceMap: ra}
	render := func(blocks []*RootBlock) []byte {
		w := &sliceWriter{}
		check(r.Render(w, blocks) == nil, "C10.render-error")
		return w.b
	}
	g1 := render(ba)
	check(vsame(g1, refRender(refCfg{}, ba, ra)), "C10.reuse.first")
	r.ReferenceMap = rb
	g2 := render(bb)
	check(vsame(g2, refRender(refCfg{}, bb, rb)), "C10.reuse.second-document")
	r.ReferenceMap = ra
	r.SoftBreakBehavior = SoftBreakHarden
	r.FilterTag = c10Filters[fi]
	g3 := render(ba)
	check(vsame(g3, refRender(refCfg{soft: SoftBreakHarden, filter: c10Filters[fi]}, ba, ra)), "C10.reuse.reconfigured")
	r.IgnoreRaw = true
	r.SoftBreakBehavior = SoftBreakSpace
	g4 := render(bb) // B's tree with A's reference map still installed: destinations come from A's map
	check(vsame(g4, refRender(refCfg{soft: SoftBreakSpace, ignoreRaw: true, filter: c10Filters[fi]}, bb, ra)), "C10.reuse.other-map")
	vdigest(g2)
}
