//go:build verif

package commonmark

// C10 — HTML output is the canonical serialization of the tree in every configuration.

func filterNever(tag []byte) bool { return false }
func filterXmp(tag []byte) bool   { return string(tag) == "xmp" }
func filterBScript(tag []byte) bool {
	return string(tag) == "b" || string(tag) == "script"
}

var c10Filters = []func([]byte) bool{nil, FilterTagGFM, rejectAll, filterNever, filterXmp, filterBScript}

// attribute-emission templates (one per emission site), shared with C07
var attrTemplates = []string{
	"[a](" + hA + hA + ")",                  // 0
	"[a](b \"" + hA + hA + "\")",            // 1
	"![" + hA + hA + "](x)",                 // 2
	"![a](x '" + hA + "')",                  // 3
	"<a:" + hA + hA + ">",                   // 4
	"```" + hA + hA,                         // 5
	"&" + hA + hA + hA + ";",                // 6
	"&#x" + hA + hA + ";",                   // 7
	"[a]\n\n[a]: " + hA + hA + " \"" + hA + "\"", // 8
	"![*" + hA + "*&amp;" + hA + "](x)",     // 9 alt text with nested emphasis and a character reference
	"<" + hA + "@" + hA + "." + hA + ">",    // 10 e-mail autolink
	"1" + hD + ". a",                        // 11 ordered list start
	"- a\n\n  b" + hA + "\n- c",             // 12 loose list
	"a" + hA + hA + "\nb",                   // 13 soft / hard breaks
	"<b" + hA + hA + "\n\n<xmp>" + hA,       // 14 html block
	"a <b" + hA + "> <xmp" + hA + ">",       // 15 inline raw html
	"<div>\n<" + hA + "<" + hA + ">",         // 16 '<' inside a tag name in an HTML block
	"- <div>\n \t" + hA + "\n",              // 17 partially consumed tab inside an HTML block in a list item
	">\t<div>\n>\t" + hA,                    // 18 the same in a block quote
	"```" + hA + "&#32;" + hA + "\nx\n```",    // 19 info string with a character reference
}

func c10Input(kind, a int) []byte {
	switch kind {
	case 0:
		return nondetBytes(a)
	case 1:
		return tmplBytes(tlTemplates[a])
	}
	return tmplBytes(attrTemplates[a])
}

// H_C10(kind*1000+a, filterIndex)
func H_C10(ka, fi int) {
	in := c10Input(ka/1000, ka%1000)
	blocks, refs := Parse(in)
	vfreeze()
	filter := c10Filters[fi]
	var d []byte
	for soft := SoftBreakPreserve; soft <= SoftBreakHarden; soft++ {
		for raw := 0; raw < 2; raw++ {
			r := &HTMLRenderer{ReferenceMap: refs, SoftBreakBehavior: soft, IgnoreRaw: raw == 1, FilterTag: filter}
			w := &sliceWriter{}
			check(r.Render(w, blocks) == nil, "C10.render-error")
			got := w.b
			want := refRender(refCfg{soft: soft, ignoreRaw: raw == 1, filter: filter}, blocks, refs)
			check(vsame(got, want), "C10.bytes-equal")
			if soft == SoftBreakPreserve {
				w2 := &sliceWriter{}
				r.Render(w2, blocks)
				check(vsame(w2.b, got), "C10.deterministic")
				check(vsame(renderWith(r, blocks), got), "C10.join")
				d = append(d, got...)
			}
		}
	}
	vunfreeze()
	vdigest(d)
}
