//go:build verif

package commonmark

// C10 — HTML output is the canonical serialization of the tree in every configuration.

func filterNever(tag []byte) bool { return false }
func filterXmp(tag []byte) bool   { return string(tag) == "xmp" }
func filterBScript(tag []byte) bool {
	return string(tag) == "b" || string(tag) == "script"
}

var c10Filters = []func([]byte) bool{nil, FilterTagGFM, rejectAll, filterNever, filterXmp, filterBScript}

// attribute-emission templates (one per emission site), shared with C07
var attrTemplates = []string{
	"[a](" + hA + hA + ")",                  // 0
	"[a](b \"" + hA + hA + "\")",            // 1
	"![" + hA + hA + "](x)",                 // 2
	"![a](x '" + hA + "')",                  // 3
	"<a:" + hA + hA + ">",                   // 4
	"```" + hA + hA,                         // 5
	"&" + hA + hA + hA + ";",                // 6
	"&#x" + hA + hA + ";",                   // 7
	"[a]\n\n[a]: " + hA + hA + " \"" + hA + "\"", // 8
	"![*" + hA + "*&amp;" + hA + "](x)",     // 9 alt text with nested emphasis and a character reference
	"<" + hA + "@" + hA + "." + hA + ">",    // 10 e-mail autolink
	"1" + hD + ". a",                        // 11 ordered list start
	"- a\n\n  b" + hA + "\n- c",             // 12 loose list
	"a" + hA + hA + "\nb",                   // 13 soft / hard breaks
	"<b" + hA + hA + "\n\n<xmp>" + hA,       // 14 html block
	"a <b" + hA + "> <xmp" + hA + ">",       // 15 inline raw html
	"<div>\n<" + hA + "<" + hA + ">",         // 16 '<' inside a tag name in an HTML block
	"- <div>\n \t" + hA + "\n",              // 17 partially consumed tab inside an HTML block in a list item
	">\t<div>\n>\t" + hA,                    // 18 the same in a block quote
	"```" + hA + "&#32;" + hA + "\nx\n```",    // 19 info string with a character reference
	"[a](%4" + hA + hA + ")",                  // 20 percent escape followed by a free byte in a destination
	"[a](b " + hA + hA + ")",                  // 21 two-byte title incl. the empty titles "" '' ()
	"![&quot;" + hA + "&" + hA + "t;](x)",      // 22 character references in an image description
	"<http://a/%2" + hA + hA + ">",            // 23 percent escape in an autolink
	"> a <b\n> " + hA + "=\"d\">x</b>",         // 24 multi-line inline tag inside a block quote
	"- <!-- a\n  " + hA + " -->",              // 25 multi-line comment inside a list item
}

func c10Input(kind, a int) []byte {
	switch kind {
	case 0:
		return nondetBytes(a)
	case 1:
		return tmplBytes(tlTemplates[a])
	}
	return tmplBytes(attrTemplates[a])
}

// H_C10(kind*1000+a, filterIndex)
func H_C10(ka, fi int) {
	in := c10Input(ka/1000, ka%1000)
	blocks, refs := Parse(in)
	vfreeze()
	filter := c10Filters[fi]
	var d []byte
	for soft := SoftBreakPreserve; soft <= SoftBreakHarden; soft++ {
		for raw := 0; raw < 2; raw++ {
			r := &HTMLRenderer{ReferenceMap: refs, SoftBreakBehavior: soft, IgnoreRaw: raw == 1, FilterTag: filter}
			w := &sliceWriter{}
			check(r.Render(w, blocks) == nil, "C10.render-error")
			got := w.b
			want := refRender(refCfg{soft: soft, ignoreRaw: raw == 1, filter: filter}, blocks, refs)
			check(vsame(got, want), "C10.bytes-equal")
			if soft == SoftBreakPreserve {
				w2 := &sliceWriter{}
				r.Render(w2, blocks)
				check(vsame(w2.b, got), "C10.deterministic")
				check(vsame(renderWith(r, blocks), got), "C10.join")
				d = append(d, got...)
			}
		}
	}
	vunfreeze()
	vdigest(d)
}

// H_C10_join(n, _): the block-join rule on a long document - n paragraphs (the letter
// of each chosen from one symbolic byte) so that the rendered output crosses the
// usual buffer sizes (4 KiB, 8 KiB, ...): Render(blocks) equals the AppendBlock
// outputs joined by blank lines, byte for byte.
func H_C10_join(n, _ int) {
	c := nondetByte()
	assume(isL(c))
	var doc []byte
	for i := 0; i < n; i++ {
		doc = append(doc, "paragraph *number* `x` "...)
		doc = append(doc, c)
		doc = append(doc, "\nwith two lines\n\n"...)
	}
	blocks, refs := Parse(doc)
	r := &HTMLRenderer{ReferenceMap: refs}
	w := &sliceWriter{}
	check(r.Render(w, blocks) == nil, "C10.render-error")
	got := w.b
	var want []byte
	for i, b := range blocks {
		if i > 0 {
			want = append(want, "\n\n"...)
		}
		want = r.AppendBlock(want, b)
	}
	check(len(blocks) == n, "C10.join.blocks")
	check(vsame(got, want), "C10.join")
	vdigest(got[:64])
}
