//go:build verif

package commonmark

import "html"

// C07 — without raw HTML, output is well-formed, fixed-vocabulary, fully escaped HTML.

func c07Elem(name []byte) (ok, void bool) {
	switch string(name) {
	case "p", "h1", "h2", "h3", "h4", "h5", "h6", "pre", "code", "blockquote", "ul", "ol", "li", "em", "strong", "a":
		return true, false
	case "hr", "br", "img":
		return true, true
	}
	return false, false
}

func c07Attr(name []byte) bool {
	switch string(name) {
	case "class", "start", "href", "title", "src", "alt":
		return true
	}
	return false
}

func isLower(c byte) bool { return 'a' <= c && c <= 'z' }
func isDigitB(c byte) bool { return '0' <= c && c <= '9' }

// ampOK: out[i] == '&' begins a syntactically valid character reference
// (&name; | &#d{1,7}; | &#[xX]h{1,6};).
func ampOK(out []byte, i int) bool {
	j := i + 1
	if j >= len(out) {
		return false
	}
	if out[j] == '#' {
		j++
		if j < len(out) && (out[j] == 'x' || out[j] == 'X') {
			j++
			k := j
			for k < len(out) && k-j < 7 && refIsHex(out[k]) {
				k++
			}
			return k > j && k-j <= 6 && k < len(out) && out[k] == ';'
		}
		k := j
		for k < len(out) && k-j < 8 && isDigitB(out[k]) {
			k++
		}
		return k > j && k-j <= 7 && k < len(out) && out[k] == ';'
	}
	if !isASCIILetterRef(out[j]) {
		return false
	}
	k := j
	for k < len(out) && (isASCIILetterRef(out[k]) || isDigitB(out[k])) {
		k++
	}
	if k >= len(out) || out[k] != ';' {
		return false
	}
	return namedRefExact(out[i : k+1])
}

// namedRefExact: ref ("&name;") is a named character reference of HTML, semicolon
// included - decoding it differs from decoding "&name" and appending ";". Unknown
// names decode to themselves both ways, and names that merely start with one of the
// legacy semicolon-less entities (&notit; &ltx; &ampx;) leave the semicolon behind
// both ways; a browser would show those as something other than the source text, so
// the '&' in front of them has to be escaped like any other text.
func namedRefExact(ref []byte) bool {
	whole := html.UnescapeString(string(ref))
	part := html.UnescapeString(string(ref[:len(ref)-1])) + ";"
	return whole != part
}

// c07Validate checks the strict grammar; returns the tag/attribute-name skeleton.
func c07Validate(out []byte) []byte {
	var skel []byte
	var stack [][]byte
	i := 0
	for i < len(out) {
		c := out[i]
		switch {
		case c == '&':
			check(ampOK(out, i), "C07.amp-data")
			i++
		case c == '<':
			j := i + 1
			closing := false
			if j < len(out) && out[j] == '/' {
				closing = true
				j++
			}
			k := j
			for k < len(out) && (isLower(out[k]) || isDigitB(out[k])) {
				k++
			}
			name := out[j:k]
			ok, void := c07Elem(name)
			check(ok, "C07.tag-name")
			if !ok {
				return skel
			}
			skel = append(skel, '<')
			if closing {
				skel = append(skel, '/')
			}
			skel = append(skel, name...)
			if closing {
				if k >= len(out) || out[k] != '>' {
					check(false, "C07.close-syntax")
					return skel
				}
				if len(stack) == 0 || string(stack[len(stack)-1]) != string(name) {
					check(false, "C07.nesting")
					return skel
				}
				stack = stack[:len(stack)-1]
				skel = append(skel, '>')
				i = k + 1
				continue
			}
			for {
				if k < len(out) && out[k] == '>' {
					break
				}
				if k >= len(out) || out[k] != ' ' {
					check(false, "C07.attr-sep")
					return skel
				}
				k++
				a := k
				for k < len(out) && isLower(out[k]) {
					k++
				}
				if !c07Attr(out[a:k]) {
					check(false, "C07.attr-name")
					return skel
				}
				skel = append(skel, ' ')
				skel = append(skel, out[a:k]...)
				if k+1 >= len(out) || out[k] != '=' || out[k+1] != '"' {
					check(false, "C07.attr-eq")
					return skel
				}
				k += 2
				for k < len(out) && out[k] != '"' {
					if out[k] == '&' {
						check(ampOK(out, k), "C07.amp-attr")
					}
					check(out[k] != '<', "C07.lt-in-attr")
					k++
				}
				if k >= len(out) {
					check(false, "C07.attr-unterminated")
					return skel
				}
				k++
			}
			skel = append(skel, '>')
			if !void {
				stack = append(stack, name)
			}
			i = k + 1
		default:
			i++
		}
	}
	check(len(stack) == 0, "C07.unclosed")
	return skel
}

func hasRawNode(n Node) bool {
	if b := n.Block(); b != nil && b.Kind() == HTMLBlockKind {
		return true
	}
	if i := n.Inline(); i != nil && (i.Kind() == RawHTMLKind || i.Kind() == HTMLTagKind) {
		return true
	}
	for k := 0; k < n.ChildCount(); k++ {
		if hasRawNode(n.Child(k)) {
			return true
		}
	}
	return false
}

// H_C07(kind*1000+a, _)
func H_C07(ka, _ int) {
	in := c10Input(ka/1000, ka%1000)
	blocks, refs := Parse(in)
	anyRaw := false
	for _, b := range blocks {
		if hasRawNode(b.AsNode()) {
			anyRaw = true
		}
	}
	var d []byte
	for soft := SoftBreakPreserve; soft <= SoftBreakHarden; soft++ {
		for raw := 1; raw >= 0; raw-- {
			if raw == 0 && (anyRaw || soft != SoftBreakPreserve) {
				continue // IgnoreRaw=false only for documents without raw-HTML nodes
			}
			r := &HTMLRenderer{ReferenceMap: refs, SoftBreakBehavior: soft, IgnoreRaw: raw == 1}
			out := renderWith(r, blocks)
			skel := c07Validate(out)
			want := refRender(refCfg{soft: soft, ignoreRaw: raw == 1, skeleton: true}, blocks, refs)
			// the reference skeleton contains the "\n\n" joiners and "\n" after <br> only in non-skeleton mode
			check(vsame(skel, want), "C07.skeleton")
			if soft == SoftBreakPreserve && raw == 1 {
				d = out
			}
		}
	}
	vdigest(d)
}
