//go:build verif

package commonmark

// Unit harness of C15 (names unexported identifiers of the library; if it stops
// type-checking against the working tree it is skipped, see DESIGN.md §13.2).

func H_C15_thematic(n, _ int) {
	line, body := nondetLine(n)
	// the caller strips leading indentation
	if body > 0 {
		assume(!isST(line[0]))
	}
	want := refThematicBreak(line[:body])
	got := parseThematicBreak(line)
	check(got == want, "C15.thematic")
}
