//go:build verif

package commonmark

// Unit harness of C15 (names unexported identifiers of the library; if it stops
// type-checking against the working tree it is skipped, see DESIGN.md §13.2).

func H_C15_classes(_, _ int) {
	b := nondetByte()
	punct := vor(vor(vand(0x21 <= b, b <= 0x2F), vand(0x3A <= b, b <= 0x40)), vor(vand(0x5B <= b, b <= 0x60), vand(0x7B <= b, b <= 0x7E)))
	check(isASCIIPunctuation(b) == punct, "C15.class.punctuation")
	hex := vor(vand('0' <= b, b <= '9'), vor(vand('a' <= b, b <= 'f'), vand('A' <= b, b <= 'F')))
	check(isHex(b) == hex, "C15.class.hex")
	ws := vor(vor(b == 0x20, b == 0x09), vor(b == 0x0A, b == 0x0D))
	check(isSpaceTabOrLineEnding(b) == ws, "C15.class.space-tab-eol")
	ctl := vor(b <= 0x1F, b == 0x7F)
	check(isASCIIControl(b) == ctl, "C15.class.control")
	check(isASCIILetter(b) == vor(vand('a' <= b, b <= 'z'), vand('A' <= b, b <= 'Z')), "C15.class.letter")
	check(isASCIIDigit(b) == vand('0' <= b, b <= '9'), "C15.class.digit")
	if b < 0x80 {
		// Unicode whitespace (spec 2.1): Zs, tab, line feed, form feed, carriage return; in ASCII, Zs = {U+0020}
		uws := vor(vor(b == 0x20, b == 0x09), vor(b == 0x0A, vor(b == 0x0C, b == 0x0D)))
		check(isUnicodeWhitespace(rune(b)) == uws, "C15.class.unicode-whitespace-ascii")
		check(isUnicodePunctuation(rune(b)) == punct, "C15.class.unicode-punctuation-ascii")
	}
}
