//go:build verif

package commonmark

import (
	"errors"
	"io"
)

// Differential harnesses: C08 (streaming vs in-memory), C16 (re-parse of a root
// block), C14 (line endings / padding / final newline), C09 (quoting / indenting).

const c08Alphabet = "\xfe\n\r\x00 -#>[]:a\xc3\xa9\xfe"

func alphaBytes(n int, set string) []byte {
	b := make([]byte, 0, n)
	for i := 0; i < n; i++ {
		b = append(b, tmplBytes(set)...)
	}
	return b
}

// dumpTrees: kinds, spans, accessors and Source of every root block, without
// document positions.
func dumpTrees(blocks []*RootBlock) []byte {
	var d []byte
	for _, b := range blocks {
		d = append(d, '{')
		d = append(d, itoa(len(b.Source))...)
		d = append(d, ':')
		d = append(d, b.Source...)
		d = dumpTree(d, b.Source, b.AsNode())
		d = append(d, '}')
	}
	return d
}

func dumpPositions(blocks []*RootBlock) []byte {
	var d []byte
	for _, b := range blocks {
		d = append(d, itoa(int(b.StartOffset))...)
		d = append(d, '-')
		d = append(d, itoa(int(b.EndOffset))...)
		d = append(d, '@')
		d = append(d, itoa(b.StartLine)...)
		d = append(d, ' ')
	}
	return d
}

func dumpRefs(blocks []*RootBlock, refs ReferenceMap) []byte {
	// the map is compared through a fresh extraction order: for every definition
	// block in document order, its normalized label and what the map holds for it
	var d []byte
	var walk func(src []byte, n Node)
	walk = func(src []byte, n Node) {
		b := n.Block()
		if b == nil {
			return
		}
		if b.Kind() == LinkReferenceDefinitionKind && b.ChildCount() > 0 {
			label := b.Child(0).Inline().LinkReference()
			def, ok := refs[label]
			d = append(d, '[')
			d = append(d, label...)
			d = append(d, ']')
			if ok {
				d = append(d, def.Destination...)
				d = append(d, '|')
				if def.TitlePresent {
					d = append(d, 'T')
				}
				d = append(d, def.Title...)
			} else {
				d = append(d, "<missing>"...)
			}
			return
		}
		for i := 0; i < b.ChildCount(); i++ {
			walk(src, b.Child(i))
		}
	}
	for _, b := range blocks {
		walk(b.Source, b.AsNode())
	}
	d = append(d, '#')
	d = append(d, itoa(len(refs))...)
	return d
}

// ---------------------------------------------------------------- C08

var errFault = errors.New("verif: injected reader fault")

type schedReader struct {
	data     []byte
	pos      int
	limit    int // bytes delivered before the fault (len(data) when no fault)
	fault    bool
	zeros    int
	finished bool
	reported bool // the fault has been returned once
}

func (r *schedReader) Read(p []byte) (int, error) {
	if r.reported {
		// A reader is not obliged to repeat its error: once the fault has been
		// reported, further calls deliver the rest of the data and then io.EOF.
		// Persistence of the error is the parser's duty ("then that error,
		// persistently"), so nothing after the fault may reach the caller.
		if r.pos < len(r.data) {
			n := copy(p, r.data[r.pos:])
			r.pos += n
			return n, nil
		}
		return 0, io.EOF
	}
	if r.finished || r.pos >= r.limit {
		r.finished = true
		if r.fault {
			r.reported = true
			return 0, errFault
		}
		return 0, io.EOF
	}
	remaining := r.limit - r.pos
	c := nondetInt(0, remaining)
	if c == 0 {
		r.zeros++
		if r.zeros > 2 {
			c = 1
			r.zeros = 0
		}
	} else {
		r.zeros = 0
	}
	c = vconcrete(c)
	if c > len(p) {
		c = len(p)
	}
	copy(p, r.data[r.pos:r.pos+c])
	r.pos += c
	if r.pos >= r.limit && nondetBool() {
		// the final data may arrive together with the terminal condition
		r.finished = true
		if r.fault {
			r.reported = true
			return c, errFault
		}
		return c, io.EOF
	}
	return c, nil
}

// H_C08(n + 100*free, mode): mode 0 = arbitrary read schedule, 1 = fault after k bytes.
func H_C08(na, mode int) {
	n := na % 100
	var in []byte
	if na >= 100 {
		in = nondetBytes(n)
	} else {
		in = alphaBytes(n, c08Alphabet)
	}
	limit := n
	if mode == 1 {
		limit = vconcrete(nondetInt(0, n))
	}
	c08Compare(in, &schedReader{data: cloneBytes(in), limit: limit, fault: mode == 1}, limit, mode)
}

// menuReader delivers the data in reads whose sizes come from a short menu chosen
// by the solver (the destination size is always respected), then io.EOF.
type menuReader struct {
	data  []byte
	pos   int
	menu  []int
	calls int
}

func (r *menuReader) Read(p []byte) (int, error) {
	if r.pos >= len(r.data) {
		return 0, io.EOF
	}
	c := len(r.data) - r.pos
	if r.calls < 2 {
		// only the first two reads choose; later ones deliver as much as fits
		c = r.menu[vconcrete(nondetInt(0, len(r.menu)-1))]
	}
	r.calls++
	if c > len(r.data)-r.pos {
		c = len(r.data) - r.pos
	}
	if c > len(p) {
		c = len(p)
	}
	copy(p, r.data[r.pos:r.pos+c])
	r.pos += c
	return c, nil
}

// H_C08_big(k, fill): buffer-growth arithmetic of readline/padNulls. The input is
// one symbolic byte, k copies of a filler (fill 0: NUL, which triples in the
// buffer; fill 1: 'x'; fill 2: CR LF pairs), then "a" LF "b"; the sizes of the
// first two reads come from a menu around the 8 KiB chunk size. Compared with
// in-memory Parse exactly as H_C08.
func H_C08_big(k, fill int) {
	in := alphaBytes(1, c08Alphabet)
	for i := 0; i < k; i++ {
		switch fill {
		case 0:
			in = append(in, 0)
		case 1:
			in = append(in, 'x')
		case 3:
			// a long line ending in a bare CR exactly where the run ends
			if i == k-1 {
				in = append(in, '\r')
			} else {
				in = append(in, 'x')
			}
		default:
			if i%2 == 0 {
				in = append(in, '\r')
			} else {
				in = append(in, '\n')
			}
		}
	}
	in = append(in, "a\nb"...)
	menu := []int{1, 3, 8191, 8192, len(in)}
	c08Compare(in, &menuReader{data: cloneBytes(in), menu: menu}, len(in), 0)
}

// H_C08_cut(t, _): C01 template t delivered in two reads cut at a solver-chosen
// position (CRLF documents with runs of blank lines, bare-CR documents), compared
// with in-memory Parse exactly as H_C08.
func H_C08_cut(t, _ int) {
	in := tmplBytes(c01Templates[t])
	c08Compare(in, &cutReader{data: cloneBytes(in), cut: vconcrete(nondetInt(0, len(in)))}, len(in), 0)
}

// H_C08_tl(t, _): member t of the shared template library delivered in two reads cut
// at a solver-chosen position, compared with in-memory Parse (trees, positions and the
// reference map, e.g. definitions inside containers).
func H_C08_tl(t, _ int) {
	in := tmplBytes(tlTemplates[t])
	c08Compare(in, &cutReader{data: cloneBytes(in), cut: vconcrete(nondetInt(0, len(in)))}, len(in), 0)
}

func c08Compare(in []byte, r io.Reader, limit, mode int) {
	p := NewBlockParser(r)
	refs := make(ReferenceMap)
	var sb []*RootBlock
	var err error
	for {
		var b *RootBlock
		b, err = p.NextBlock()
		if err != nil {
			check(b == nil, "C08.block-with-error")
			break
		}
		sb = append(sb, b)
		refs.Extract(b.Source, b.AsNode())
	}
	ip := &InlineParser{ReferenceMatcher: refs}
	for _, b := range sb {
		ip.Rewrite(b)
	}
	want := io.EOF
	if mode == 1 {
		want = errFault
	}
	check(err == want, "C08.terminal-error")
	for k := 0; k < 2; k++ {
		b2, e2 := p.NextBlock()
		check(b2 == nil && e2 == want, "C08.error-sticky")
	}
	mb, mrefs := Parse(cloneBytes(in[:limit]))
	check(len(sb) == len(mb), "C08.same-count")
	check(vsame(dumpTrees(sb), dumpTrees(mb)), "C08.same-tree")
	check(vsame(dumpPositions(sb), dumpPositions(mb)), "C08.same-positions")
	check(vsame(dumpRefs(sb, refs), dumpRefs(mb, mrefs)), "C08.same-refmap")
	vdigest(dumpBlocks(sb))
}

// ---------------------------------------------------------------- C16

func H_C16(kind, a int) { c16(treeInput(kind, a), false) }

// H_C16_cut: the document itself arrives in two reads cut at a solver-chosen position.
func H_C16_cut(kind, a int) { c16(treeInput(kind, a), true) }

func c16(in []byte, cut bool) {
	var blocks []*RootBlock
	var refs ReferenceMap
	if cut {
		blocks, refs, _ = parseStream(&cutReader{data: in, cut: vconcrete(nondetInt(0, len(in)))})
	} else {
		blocks, refs, _ = parseStream(&oneShotReader{data: in})
	}
	for i, rb := range blocks {
		if rb.Kind() == ParagraphKind && i > 0 && blocks[i-1].Kind() == LinkReferenceDefinitionKind && blocks[i-1].EndOffset == rb.StartOffset {
			continue // documented exception: continuation split off a definition
		}
		p := NewBlockParser(&oneShotReader{data: cloneBytes(rb.Source)})
		one, err := p.NextBlock()
		if err != nil {
			check(false, "C16.no-block")
			continue
		}
		(&InlineParser{ReferenceMatcher: refs}).Rewrite(one)
		_, err2 := p.NextBlock()
		check(err2 == io.EOF, "C16.single-block")
		check(one.StartOffset == 0 && one.StartLine == 1, "C16.position")
		check(vsame(one.Source, rb.Source), "C16.source")
		var w, g []byte
		w = dumpTree(w, rb.Source, rb.AsNode())
		g = dumpTree(g, one.Source, one.AsNode())
		check(vsame(g, w), "C16.same-tree:"+kindName(rb.AsNode()))
	}
	vdigest(dumpBlocks(blocks))
}

// ---------------------------------------------------------------- C14

func renderPlain(in []byte, safe bool) ([]byte, []*RootBlock) {
	blocks, refs := Parse(in)
	return renderWith(&HTMLRenderer{ReferenceMap: refs, IgnoreRaw: safe}, blocks), blocks
}

func H_C14_eol(kind, a int) {
	x := treeInput(kind, a)
	for _, c := range x {
		assume(c != '\r')
	}
	h1, b1 := renderPlain(cloneBytes(x), false)
	e1 := eolToLF(h1)
	f1 := eolToLF(renderWith(&HTMLRenderer{FilterTag: FilterTagGFM}, b1))
	for style := 0; style < 2; style++ {
		var y []byte
		for _, c := range x {
			if c == '\n' {
				if style == 0 {
					y = append(y, '\r', '\n')
				} else {
					y = append(y, '\r')
				}
			} else {
				y = append(y, c)
			}
		}
		h2, b2 := renderPlain(y, false)
		if style == 0 {
			check(vsame(eolToLF(h2), e1), "C14.eol.crlf")
		} else {
			check(vsame(crToLF(h2), e1), "C14.eol.cr")
		}
		// the clause holds for every renderer configuration: also with the GFM tag filter
		// (a line ending directly after a tag name ends the name in every spelling)
		f2 := renderWith(&HTMLRenderer{FilterTag: FilterTagGFM}, b2)
		if style == 0 {
			check(vsame(eolToLF(f2), f1), "C14.eol.crlf.filtered")
		} else {
			check(vsame(crToLF(f2), f1), "C14.eol.cr.filtered")
		}
	}
	vdigest(h1)
}

// renderStreamCut renders the document parsed through the streaming entry point, the
// input arriving in two reads cut at a solver-chosen position.
func renderStreamCut(in []byte) []byte {
	blocks, refs, _ := parseStream(&cutReader{data: in, cut: vconcrete(nondetInt(0, len(in)))})
	return renderWith(&HTMLRenderer{ReferenceMap: refs}, blocks)
}

// H_C14_eol_stream: the line-ending clause through NewBlockParser/NextBlock, where a
// CRLF pair (or a CR and the byte after it) can be split between two reads.
func H_C14_eol_stream(kind, a int) {
	x := treeInput(kind, a)
	for _, c := range x {
		assume(c != '\r')
	}
	h1, _ := renderPlain(cloneBytes(x), false)
	e1 := eolToLF(h1)
	style := vconcrete(nondetInt(0, 1))
	var y []byte
	for _, c := range x {
		if c == '\n' {
			if style == 0 {
				y = append(y, '\r', '\n')
			} else {
				y = append(y, '\r')
			}
		} else {
			y = append(y, c)
		}
	}
	h2 := renderStreamCut(y)
	if style == 0 {
		check(vsame(eolToLF(h2), e1), "C14.eol.crlf.stream")
	} else {
		check(vsame(crToLF(h2), e1), "C14.eol.cr.stream")
	}
	vdigest(h1)
}

var c14Templates = []string{
	"    a\n\xfe \t\xfe\xfe \t\xfe",     // 0: indented code + whitespace-only last line (F08)
	"```\n" + hA + hA,                      // 1: open fence at EOF
	"a\xfe \\\xfe\xfe \\\xfe",             // 2: trailing spaces / backslashes
	"- a\n" + hA + hA,                       // 3: list then two bytes
	"    a\n" + hA + hA,                     // 4: indented code then two bytes
	"> a\n" + hA + hA,                       // 5
	"a\n\n    b\n" + hA,                    // 6
	"~~~\n" + hA + hA + "\n~~~" + hA,        // 7
	"a  \n" + hA,                            // 8: hard line break (two spaces), next line
	"a\\\n" + hA,                           // 9: hard line break (backslash), next line
	"- a  \n  " + hA + "\n",                 // 10: hard line break inside a list item
	"`a\n" + hA + "`\n",                     // 11: line ending inside a code span
	"```" + hA + hA,                         // 12: fence opener with a two-byte info string at end of input
	"a\n\n> ```" + hA + hA,                  // 13: the same inside a block quote
	"[a]: b\n" + hA + hA,                    // 14: definition followed by a two-byte line (setext underline left over)
	" ```\na\n\xffS",                        // 15: last line is only the indentation of an open fenced block
	"> ~~~\n> a\n>\xffS",                     // 16: the same inside a block quote
	"<xmp\n" + hA + ">b",                      // 17: HTML block: a filtered tag name directly followed by the line ending
	"a <title\nb=\"" + hA + "\">c",             // 18: inline tag: the same
}

var c14Pads = []string{"\n", " \n", "\r\n", "\t\n\n", "\r"}

func H_C14_pad(kind, a int) {
	x := treeInput(kind, a)
	pi := vconcrete(nondetInt(0, len(c14Pads)-1))
	pad := c14Pads[pi]
	if len(x) > 0 && pad[len(pad)-1] == '\r' {
		// CR followed by LF would form a CRLF instead of prepending a blank line
		assume(x[0] != '\n')
	}
	b1, r1 := Parse(cloneBytes(x))
	y := append([]byte(pad), x...)
	b2, r2 := Parse(y)
	check(len(b1) == len(b2), "C14.pad.count")
	check(vsame(dumpTrees(b2), dumpTrees(b1)), "C14.pad.tree")
	if len(b1) == len(b2) {
		lines := lineCountRef([]byte(pad))
		for i := range b1 {
			check(b2[i].StartOffset == b1[i].StartOffset+int64(len(pad)) && b2[i].EndOffset == b1[i].EndOffset+int64(len(pad)), "C14.pad.offsets")
			check(b2[i].StartLine == b1[i].StartLine+lines, "C14.pad.lines")
		}
	}
	h1 := renderWith(&HTMLRenderer{ReferenceMap: r1}, b1)
	h2 := renderWith(&HTMLRenderer{ReferenceMap: r2}, b2)
	check(vsame(h2, h1), "C14.pad.html")
	vdigest(h1)
}

func H_C14_final(kind, a int) {
	x := treeInput(kind, a)
	assume(len(x) > 0)
	last := x[len(x)-1]
	assume(last != '\n' && last != '\r')
	h1, b1 := renderPlain(cloneBytes(x), true)
	y := append(cloneBytes(x), '\n')
	h2, b2 := renderPlain(y, true)
	check(vsame(normHTML(h2), normHTML(h1)), "C14.final-newline")
	// the clause does not depend on how soft line breaks are rendered
	for _, m := range []SoftBreakBehavior{SoftBreakSpace, SoftBreakHarden} {
		g1 := renderWith(&HTMLRenderer{IgnoreRaw: true, SoftBreakBehavior: m}, b1)
		g2 := renderWith(&HTMLRenderer{IgnoreRaw: true, SoftBreakBehavior: m}, b2)
		if m == SoftBreakSpace {
			check(vsame(normHTML(g2), normHTML(g1)), "C14.final-newline.soft-space")
		} else {
			check(vsame(normHTML(g2), normHTML(g1)), "C14.final-newline.soft-harden")
		}
	}
	vdigest(h1)
}

// ---------------------------------------------------------------- C09

// prefixLines prefixes every line of d (lines end at LF, CR or CRLF) with first
// on the first line and rest on the others.
func prefixLines(d []byte, first, rest string) []byte {
	var q []byte
	i := 0
	line := 0
	for i < len(d) {
		if line == 0 {
			q = append(q, first...)
		} else {
			q = append(q, rest...)
		}
		line++
		for i < len(d) {
			c := d[i]
			q = append(q, c)
			i++
			if c == '\n' {
				break
			}
			if c == '\r' {
				if i < len(d) && d[i] == '\n' {
					q = append(q, '\n')
					i++
				}
				break
			}
		}
	}
	return q
}

func stripTags(s []byte, tag string) []byte {
	var out []byte
	for i := 0; i < len(s); i++ {
		if hasPrefixAt(s, i, "<"+tag+">") {
			i += len(tag) + 1
			continue
		}
		if hasPrefixAt(s, i, "</"+tag+">") {
			i += len(tag) + 2
			continue
		}
		out = append(out, s[i])
	}
	return out
}

func H_C09_quote(kind, a int) {
	d := treeInput(kind, a)
	for _, c := range d {
		assume(c != '\t')
	}
	hd, bd := renderPlain(cloneBytes(d), true)
	assume(len(bd) > 0)
	q := prefixLines(d, "> ", "> ")
	hq, bq := renderPlain(q, true)
	check(len(bq) == 1 && bq[0].Kind() == BlockQuoteKind, "C09.quote.single-root")
	want := append([]byte("<blockquote>\n"), hd...)
	want = append(want, "\n</blockquote>"...)
	check(vsame(normHTML(hq), normHTML(want)), "C09.quote.html")
	vdigest(hd)
}

// H_C09_quote_bare: the marker is '>' without the optional space. A bare '>' takes
// one leading space of the line for itself, so D is restricted to documents in which
// no line starts with a space (then the bare marker is exactly the block quote marker
// of the statement).
func H_C09_quote_bare(kind, a int) {
	d := treeInput(kind, a)
	atStart := true
	for _, c := range d {
		assume(c != '\t')
		if atStart {
			assume(c != ' ')
		}
		atStart = c == '\n' || c == '\r'
	}
	hd, bd := renderPlain(cloneBytes(d), true)
	assume(len(bd) > 0)
	q := prefixLines(d, ">", ">")
	hq, bq := renderPlain(q, true)
	check(len(bq) == 1 && bq[0].Kind() == BlockQuoteKind, "C09.quote-bare.single-root")
	want := append([]byte("<blockquote>\n"), hd...)
	want = append(want, "\n</blockquote>"...)
	check(vsame(normHTML(hq), normHTML(want)), "C09.quote-bare.html")
	vdigest(hd)
}

var c09Markers = []string{"-", "+", "*", "1.", "9)", "12."}

func H_C09_list(kind, a int) {
	d := treeInput(kind, a)
	assume(len(d) > 0)
	for _, c := range d {
		assume(c != '\t')
	}
	assume(d[0] != ' ')
	// no whitespace-only lines
	lineBlank := true
	for i, c := range d {
		if c == '\n' || c == '\r' {
			if !(c == '\n' && i > 0 && d[i-1] == '\r') {
				assume(!lineBlank)
			}
			lineBlank = true
		} else if c != ' ' {
			lineBlank = false
		}
	}
	assume(!lineBlank)
	hd, bd := renderPlain(cloneBytes(d), true)
	assume(len(bd) > 0)
	mi := vconcrete(nondetInt(0, len(c09Markers)-1))
	nsp := vconcrete(nondetInt(1, 4))
	marker := c09Markers[mi]
	first := marker
	rest := ""
	for i := 0; i < nsp; i++ {
		first += " "
	}
	for i := 0; i < len(marker)+nsp; i++ {
		rest += " "
	}
	q := prefixLines(d, first, rest)
	// unless the result's first line is a thematic break
	e := 0
	for e < len(q) && q[e] != '\n' && q[e] != '\r' {
		e++
	}
	assume(refThematicBreak(q[:e]) < 0)
	hq, bq := renderPlain(q, true)
	ok := len(bq) == 1 && bq[0].Kind() == ListKind && bq[0].ChildCount() == 1
	check(ok, "C09.list.single-item")
	if ok {
		// a one-item list without blank lines between blocks is tight: paragraphs are unwrapped
		got := normHTML(stripTags(hq, "p"))
		inner := stripTags(hd, "p")
		open := "<ul><li>"
		cl := "</li></ul>"
		if mi >= 3 {
			cl = "</li></ol>"
			switch mi {
			case 3:
				open = "<ol><li>"
			case 4:
				open = "<ol start=\"9\"><li>"
			case 5:
				open = "<ol start=\"12\"><li>"
			}
		}
		want := append([]byte(open+"\n"), inner...)
		want = append(want, "\n"+cl...)
		check(vsame(got, normHTML(want)), "C09.list.html")
	}
	vdigest(hd)
}
