//go:build verif

package format

import "zombiezen.com/go/commonmark"

// H_C19_format: Format does not write to the tree, Source or any pre-existing state.
func H_C19_format(n, _ int) {
	in := nondetBytes(n)
	blocks, _ := commonmark.Parse(in)
	vfreeze()
	w1 := &sliceWriter{}
	Format(w1, blocks)
	w2 := &sliceWriter{}
	Format(w2, blocks)
	vunfreeze()
	check(vsame(w1.b, w2.b), "C19.format-repeatable")
	vdigest(w1.b)
}

// H_C19_format_fault(i, K): calls do not influence one another through state kept
// between them (a pooled or cached writer, a sticky error): document i is formatted
// into a healthy writer, into a writer that fails at a solver-chosen call, and into a
// healthy writer again - as another goroutine's call that happens to follow a failed
// one would be. The third result must equal the first.
func H_C19_format_fault(i, K int) {
	blocks, _ := commonmark.Parse([]byte(c20FaultDocs[i]))
	w1 := &sliceWriter{}
	check(Format(w1, blocks) == nil, "C19.format.healthy")
	vfreeze()
	f := &faultyWriter{k: vconcrete(nondetInt(1, K))}
	Format(f, blocks)
	w3 := &strWriter{}
	err := Format(w3, blocks)
	vunfreeze()
	check(err == nil, "C19.format.after-failed-call.error")
	check(vsame(w3.b, w1.b), "C19.format.after-failed-call.bytes")
	vdigest(w1.b)
}
