//go:build verif

package format

import "zombiezen.com/go/commonmark"

// H_C19_format: Format does not write to the tree, Source or any pre-existing state.
func H_C19_format(n, _ int) {
	in := nondetBytes(n)
	blocks, _ := commonmark.Parse(in)
	vfreeze()
	w1 := &sliceWriter{}
	Format(w1, blocks)
	w2 := &sliceWriter{}
	Format(w2, blocks)
	vunfreeze()
	check(vsame(w1.b, w2.b), "C19.format-repeatable")
	vdigest(w1.b)
}
