//go:build verif

package format

import (
	"errors"

	"zombiezen.com/go/commonmark"
)

// C20 — Format is total, deterministic, and meaning-preserving on canonical documents.

var errWriter = errors.New("verif: injected writer fault")

// faultyWriter fails on its k-th call (1-based) and records calls after the failure.
type faultyWriter struct {
	k          int
	calls      int
	afterFail  int
	failed     bool
	b          []byte
}

func (w *faultyWriter) Write(p []byte) (int, error) {
	if w.failed {
		w.afterFail++
		return 0, errWriter
	}
	w.calls++
	if w.calls == w.k {
		w.failed = true
		return 0, errWriter
	}
	w.b = append(w.b, p...)
	return len(p), nil
}

// faultyStrWriter additionally implements io.StringWriter.
type faultyStrWriter struct{ faultyWriter }

func (w *faultyStrWriter) WriteString(s string) (int, error) { return w.Write([]byte(s)) }

func H_C20_total(n, K int) {
	in := nondetBytes(n)
	blocks, _ := commonmark.Parse(in)
	vfreeze()
	w1 := &sliceWriter{}
	check(Format(w1, blocks) == nil, "C20.healthy-error")
	w2 := &strWriter{}
	check(Format(w2, blocks) == nil, "C20.healthy-error")
	check(vsame(w1.b, w2.b), "C20.deterministic")
	// failing writer: the k-th call fails
	k := vconcrete(nondetInt(1, K))
	var fw *faultyWriter
	var err error
	if nondetBool() {
		f := &faultyWriter{k: k}
		fw = f
		err = Format(f, blocks)
	} else {
		f := &faultyStrWriter{faultyWriter{k: k}}
		fw = &f.faultyWriter
		err = Format(f, blocks)
	}
	// a failed call leaves nothing behind: the next call on a healthy writer gives
	// the same bytes as before ("gives the same bytes every time")
	w3 := &sliceWriter{}
	check(Format(w3, blocks) == nil, "C20.healthy-error-after-fault")
	check(vsame(w3.b, w1.b), "C20.deterministic-after-fault")
	vunfreeze()
	if fw.failed {
		check(err == errWriter, "C20.returns-first-error")
		check(fw.afterFail == 0, "C20.no-write-after-error")
	} else {
		check(err == nil, "C20.healthy-error")
	}
	vdigest(w1.b)
}

func renderHTML(doc []byte) []byte {
	blocks, refs := commonmark.Parse(doc)
	var out []byte
	r := &commonmark.HTMLRenderer{ReferenceMap: refs}
	for i, b := range blocks {
		if i > 0 {
			out = append(out, "\n\n"...)
		}
		out = r.AppendBlock(out, b)
	}
	return out
}

func formatDoc(doc []byte) []byte {
	blocks, _ := commonmark.Parse(doc)
	w := &sliceWriter{}
	Format(w, blocks)
	return w.b
}

// H_C20_canon(budget, flags): canonical-style documents over the supported construct set.
func H_C20_canon(budget, flags int) {
	g := &cgen{budget: budget, maxDepth: 2, fmtSafe: true, rich: flags&2 != 0}
	d, _ := g.document(2)
	f := formatDoc(cloneBytes(d))
	h1 := normHTML(renderHTML(cloneBytes(d)))
	h2 := normHTML(renderHTML(cloneBytes(f)))
	if !vsame(h1, h2) {
		vnote("doc=" + string(d))
		vnote("formatted=" + string(f))
		vnote("html(doc)=" + string(h1))
		vnote("html(formatted)=" + string(h2))
	}
	check(vsame(h2, h1), "C20.meaning-preserved")
	f2 := formatDoc(cloneBytes(f))
	if !vsame(f2, f) {
		vnote("doc=" + string(d))
		vnote("formatted=" + string(f))
		vnote("reformatted=" + string(f2))
	}
	check(vsame(f2, f), "C20.idempotent")
	vdigest(f)
}

// H_C20_marker(k, second): ordered list item whose number has k digits (every digit
// a solver variable, no leading zero), delimiter '.' or ')', holding a paragraph and
// a second child block after a blank line (second 0: paragraph, 1: fenced code,
// 2: nested bullet list, 3: block quote). The continuation indent must be the full
// marker width + 1 for every width 2..10.
func H_C20_marker(k, second int) {
	var m []byte
	for i := 0; i < k; i++ {
		d := nondetByte()
		assume(classOK(d, 'D'))
		if i == 0 && k > 1 {
			assume(d != '0')
		}
		m = append(m, d)
	}
	if nondetBool() {
		m = append(m, ')')
	} else {
		m = append(m, '.')
	}
	var ind []byte
	for i := 0; i < len(m)+1; i++ {
		ind = append(ind, ' ')
	}
	d := append(append([]byte(nil), m...), " a\n\n"...)
	add := func(l string) {
		d = append(d, ind...)
		d = append(d, l...)
		d = append(d, '\n')
	}
	switch second {
	case 0:
		add("b")
	case 1:
		add("```")
		add("x")
		add("```")
	case 2:
		add("- c")
	default:
		add("> c")
	}
	f := formatDoc(cloneBytes(d))
	h1 := normHTML(renderHTML(cloneBytes(d)))
	h2 := normHTML(renderHTML(cloneBytes(f)))
	if !vsame(h1, h2) {
		vnote("doc=" + string(d))
		vnote("formatted=" + string(f))
	}
	check(vsame(h2, h1), "C20.meaning-preserved")
	f2 := formatDoc(cloneBytes(f))
	check(vsame(f2, f), "C20.idempotent")
	vdigest(f)
}

// H_C20_fence(n1, n2): a fenced code block (opening fence of seven backticks) whose
// two content lines are n1 and n2 free bytes over {backtick, space, tab, 'a'} - lines
// that may look like closing fences of any shorter length, with indentation and
// trailing whitespace. Variant (solver-chosen): the block is closed by its fence, or
// runs to the end of input (canonical documents end in a line ending). Format must
// choose a fence that none of the content lines closes.
func H_C20_fence(n1, n2 int) {
	line := func(n int) []byte {
		var l []byte
		for i := 0; i < n; i++ {
			c := nondetByte()
			assume(vor(vor(c == '`', c == ' '), vor(c == '\t', c == 'a')))
			l = append(l, c)
		}
		return l
	}
	d := []byte("```````\n")
	d = append(d, line(n1)...)
	d = append(d, '\n')
	d = append(d, line(n2)...)
	if nondetBool() {
		d = append(d, "\n```````\n"...)
	} else {
		d = append(d, '\n') // the block runs to the end of input (with its final line ending)
	}
	f := formatDoc(cloneBytes(d))
	h1 := normHTML(renderHTML(cloneBytes(d)))
	h2 := normHTML(renderHTML(cloneBytes(f)))
	if !vsame(h1, h2) {
		vnote("doc=" + string(d))
		vnote("formatted=" + string(f))
	}
	check(vsame(h2, h1), "C20.meaning-preserved")
	f2 := formatDoc(cloneBytes(f))
	check(vsame(f2, f), "C20.idempotent")
	vdigest(f)
}

// H_C20_esc(k, cont): a paragraph of k backslash-escaped punctuation bytes (each a
// solver variable over all ASCII punctuation), at top level (cont 0), as the first
// line of a bullet item (1), of an ordered item (2) or of a block quote (3), and as a
// continuation line of a paragraph in a bullet item (4). The formatter may drop
// escapes it considers unnecessary, but the text must stay text.
func H_C20_esc(k, cont int) {
	var d []byte
	switch cont {
	case 1:
		d = append(d, "- "...)
	case 2:
		d = append(d, "1. "...)
	case 3:
		d = append(d, "> "...)
	case 4:
		d = append(d, "- a\n  "...)
	}
	for i := 0; i < k; i++ {
		p := nondetByte()
		assume(classOK(p, 'P'))
		d = append(d, '\\', p)
	}
	d = append(d, '\n')
	f := formatDoc(cloneBytes(d))
	h1 := normHTML(renderHTML(cloneBytes(d)))
	h2 := normHTML(renderHTML(cloneBytes(f)))
	if !vsame(h1, h2) {
		vnote("doc=" + string(d))
		vnote("formatted=" + string(f))
	}
	check(vsame(h2, h1), "C20.meaning-preserved")
	f2 := formatDoc(cloneBytes(f))
	check(vsame(f2, f), "C20.idempotent")
	vdigest(f)
}

// c20Wrap puts the lines of a block into a container spelled the way the formatter
// itself spells it: kind 0 block quote ("> " on every line, ">" on blank ones), kind 1
// bullet item ("- " then two spaces), kind 2 ordered item ("1. " then three spaces);
// blank lines inside list items stay empty.
func c20Wrap(lines [][]byte, kind int) [][]byte {
	var out [][]byte
	for i, l := range lines {
		var p string
		switch kind {
		case 0:
			p = "> "
			if len(l) == 0 {
				p = ">"
			}
		case 1:
			p = "  "
			if i == 0 {
				p = "- "
			}
		default:
			p = "   "
			if i == 0 {
				p = "1. "
			}
		}
		if kind != 0 && len(l) == 0 {
			p = ""
		}
		out = append(out, append([]byte(p), l...))
	}
	return out
}

// H_C20_nest(outer, inner): the nesting matrix of the formatter - every container
// inside every container (block quote, bullet item, ordered item), holding one of
// three contents chosen by the solver: two paragraphs separated by a blank line, a
// fenced code block with a blank line inside, or a paragraph followed by a thematic
// break. Letters are free. The blank lines inside are where indentation and quote
// markers have to be written for lines that have no content of their own.
func H_C20_nest(outer, inner int) {
	a, b := nondetByte(), nondetByte()
	assume(isL(a))
	assume(isL(b))
	var lines [][]byte
	switch vconcrete(nondetInt(0, 2)) {
	case 0:
		lines = [][]byte{{a}, nil, {b}}
	case 1:
		lines = [][]byte{[]byte("```"), {a}, nil, {b}, []byte("```")}
	default:
		lines = [][]byte{{a}, nil, []byte("***"), nil, {b}}
	}
	lines = c20Wrap(c20Wrap(lines, inner), outer)
	var d []byte
	for _, l := range lines {
		d = append(d, l...)
		d = append(d, '\n')
	}
	f := formatDoc(cloneBytes(d))
	h1 := normHTML(renderHTML(cloneBytes(d)))
	h2 := normHTML(renderHTML(cloneBytes(f)))
	if !vsame(h1, h2) {
		vnote("doc=" + string(d))
		vnote("formatted=" + string(f))
	}
	check(vsame(h2, h1), "C20.meaning-preserved")
	f2 := formatDoc(cloneBytes(f))
	check(vsame(f2, f), "C20.idempotent")
	vdigest(f)
}

var c20FaultDocs = []string{
	"a\n\n---\n\n\nb\n",
	"> - a\n>   b\n",
	"- > a\n  > b\n",
	"1. a\n\n   b\n2. c\n",
	"# h\n\n```go\nx\n\ny\n```\n\n[a]: /b \"t\"\n",
	"a *b* [c](d) `e`\\\nf\n",
}

// H_C20_fault(i, K): fixed richer documents (blank lines before thematic breaks,
// nested containers, code with blank lines, definitions, inline constructs) formatted
// into a writer whose k-th call fails, k in 1..K a solver variable, both writer kinds:
// exactly that error comes back and the writer is not called again.
func H_C20_fault(i, K int) {
	blocks, _ := commonmark.Parse([]byte(c20FaultDocs[i]))
	k := vconcrete(nondetInt(1, K))
	var fw *faultyWriter
	var err error
	if nondetBool() {
		f := &faultyWriter{k: k}
		fw = f
		err = Format(f, blocks)
	} else {
		f := &faultyStrWriter{faultyWriter{k: k}}
		fw = &f.faultyWriter
		err = Format(f, blocks)
	}
	if fw.failed {
		check(err == errWriter, "C20.returns-first-error")
		check(fw.afterFail == 0, "C20.no-write-after-error")
	} else {
		check(err == nil, "C20.healthy-error")
	}
	// the next calls on healthy writers are complete and unaffected by the failure
	w := &sliceWriter{}
	check(Format(w, blocks) == nil, "C20.healthy-error-after-fault")
	w2 := &sliceWriter{}
	Format(w2, blocks)
	check(vsame(w2.b, w.b), "C20.deterministic-after-fault")
	vdigest(fw.b)
}

// H_C20_tight(outer, _): tight lists whose items hold more than a paragraph. The outer
// list ('-' items for outer 0, '1.' '2.' for outer 1, the same inside a block quote for
// 2 and 3) is tight and has two items; the first is a paragraph directly followed
// (no blank line anywhere) by a second block chosen by the solver: a nested tight
// bullet list of one or two items, a nested ordered list, a block quote, a fenced code
// block, a fenced code block followed by a paragraph, an ATX heading, a thematic break.
// Such documents are canonical style (Appendix D rule 3 and its generalisation to the
// blocks that may interrupt a paragraph); formatting must keep every list tight.
func H_C20_tight(outer, _ int) {
	a, b := nondetByte(), nondetByte()
	assume(isL(a))
	assume(isL(b))
	m1, m2, ind := "- ", "- ", "  "
	if outer%2 == 1 {
		m1, m2, ind = "1. ", "2. ", "   "
	}
	var lines []string
	lines = append(lines, m1+string([]byte{a}))
	switch vconcrete(nondetInt(0, 7)) {
	case 0:
		lines = append(lines, ind+"- x")
	case 1:
		lines = append(lines, ind+"- x", ind+"- y")
	case 2:
		lines = append(lines, ind+"1. x", ind+"2. y")
	case 3:
		lines = append(lines, ind+"> x")
	case 4:
		lines = append(lines, ind+"```", ind+"x", ind+"```")
	case 5:
		lines = append(lines, ind+"```", ind+"x", ind+"```", ind+"y")
	case 6:
		lines = append(lines, ind+"# x")
	default:
		lines = append(lines, ind+"***")
	}
	lines = append(lines, m2+string([]byte{b}))
	var d []byte
	for _, l := range lines {
		if outer >= 2 {
			d = append(d, "> "...)
		}
		d = append(d, l...)
		d = append(d, '\n')
	}
	f := formatDoc(cloneBytes(d))
	h1 := normHTML(renderHTML(cloneBytes(d)))
	h2 := normHTML(renderHTML(cloneBytes(f)))
	if !vsame(h1, h2) {
		vnote("doc=" + string(d))
		vnote("formatted=" + string(f))
	}
	check(vsame(h2, h1), "C20.meaning-preserved")
	f2 := formatDoc(cloneBytes(f))
	check(vsame(f2, f), "C20.idempotent")
	vdigest(f)
}

// H_C20_span(container, _): an inline construct that continues on the next line of a
// paragraph inside a container (0 block quote, 1 bullet item, 2 ordered item, 3 block
// quote inside a bullet item). The construct is chosen by the solver: emphasis with
// '*' or '_', strong emphasis, emphasis holding strong emphasis, link text, a code
// span, an image description, a raw inline tag. The second line carries the
// container's prefix in the source; the formatted text must not carry it twice.
func H_C20_span(container, _ int) {
	a, b := nondetByte(), nondetByte()
	assume(isL(a))
	assume(isL(b))
	first := []string{"> ", "- ", "1. ", "- > "}[container]
	rest := []string{"> ", "  ", "   ", "  > "}[container]
	open, cl := "", ""
	switch vconcrete(nondetInt(0, 7)) {
	case 0:
		open, cl = "*", "*"
	case 1:
		open, cl = "_", "_"
	case 2:
		open, cl = "**", "**"
	case 3:
		open, cl = "*p **", "** q*"
	case 4:
		open, cl = "[", "](u)"
	case 5:
		open, cl = "`", "`"
	case 6:
		open, cl = "![", "](u)"
	default:
		open, cl = "<i t=\"", "\">"
	}
	var d []byte
	d = append(d, first+"x "+open...)
	d = append(d, a, '\n')
	d = append(d, rest...)
	d = append(d, b)
	d = append(d, cl+" y\n"...)
	f := formatDoc(cloneBytes(d))
	h1 := normHTML(renderHTML(cloneBytes(d)))
	h2 := normHTML(renderHTML(cloneBytes(f)))
	if !vsame(h1, h2) {
		vnote("doc=" + string(d))
		vnote("formatted=" + string(f))
	}
	check(vsame(h2, h1), "C20.meaning-preserved")
	f2 := formatDoc(cloneBytes(f))
	check(vsame(f2, f), "C20.idempotent")
	vdigest(f)
}

// H_C20_loose_after(prev, _): a LOOSE list (two items separated by a blank line,
// bullet or ordered starting at 2 - the solver chooses) directly after another block:
// prev 0 a paragraph, 1 an ATX heading, 2 a fenced code block, 3 a block quote, 4 the
// paragraph of a tight bullet item (the loose list is nested in it), 5 the same inside
// a block quote. The formatted text must keep the list apart from what precedes it.
func H_C20_loose_after(prev, _ int) {
	a, b := nondetByte(), nondetByte()
	assume(isL(a))
	assume(isL(b))
	m1, m2 := "- ", "- "
	if nondetBool() {
		m1, m2 = "2. ", "3. "
	}
	var lines []string
	ind := ""
	switch prev {
	case 0:
		lines = append(lines, "p", "")
	case 1:
		lines = append(lines, "# p", "")
	case 2:
		lines = append(lines, "```", "p", "```", "")
	case 3:
		lines = append(lines, "> p", "")
	default:
		lines = append(lines, "- p")
		ind = "  "
	}
	lines = append(lines, ind+m1+string([]byte{a}), "", ind+m2+string([]byte{b}))
	if prev >= 4 {
		lines = append(lines, "- q")
	}
	var d []byte
	for _, l := range lines {
		if prev == 5 {
			if l == "" {
				d = append(d, '>')
			} else {
				d = append(d, "> "...)
			}
		}
		d = append(d, l...)
		d = append(d, '\n')
	}
	f := formatDoc(cloneBytes(d))
	h1 := normHTML(renderHTML(cloneBytes(d)))
	h2 := normHTML(renderHTML(cloneBytes(f)))
	if !vsame(h1, h2) {
		vnote("doc=" + string(d))
		vnote("formatted=" + string(f))
	}
	check(vsame(h2, h1), "C20.meaning-preserved")
	f2 := formatDoc(cloneBytes(f))
	check(vsame(f2, f), "C20.idempotent")
	vdigest(f)
}
