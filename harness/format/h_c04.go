//go:build verif

package format

import (
	"zombiezen.com/go/commonmark"
)

func nondetBytes(n int) []byte {
	b := make([]byte, n)
	for i := range b {
		b[i] = nondetByte()
	}
	return b
}

type sliceWriter struct{ b []byte }

func (w *sliceWriter) Write(p []byte) (int, error) {
	w.b = append(w.b, p...)
	return len(p), nil
}

// strWriter also implements io.StringWriter.
type strWriter struct{ b []byte }

func (w *strWriter) Write(p []byte) (int, error) {
	w.b = append(w.b, p...)
	return len(p), nil
}

func (w *strWriter) WriteString(s string) (int, error) {
	w.b = append(w.b, s...)
	return len(s), nil
}

// H_C04_format: Format returns nil on a healthy writer for every input (and does
// not panic / loop: decided by the engine).
func H_C04_format(n, _ int) {
	in := nondetBytes(n)
	blocks, _ := commonmark.Parse(in)
	w := &sliceWriter{}
	check(Format(w, blocks) == nil, "C04.format-error")
	sw := &strWriter{}
	check(Format(sw, blocks) == nil, "C04.format-error-stringwriter")
	check(vsame(w.b, sw.b), "C04.format-writer-kinds-agree")
	vdigest(w.b)
}
