//go:build verif

package format

import (
	"zombiezen.com/go/commonmark"
)

// H_SELF_format: engine self-test digest for the formatter (see harness/commonmark/h_self.go).
func H_SELF_format(n, _ int) {
	in := nondetBytes(n)
	blocks, _ := commonmark.Parse(in)
	w := &sliceWriter{}
	Format(w, blocks)
	vdigest(w.b)
}
