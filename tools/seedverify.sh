#!/bin/bash
# usage: tools/seedverify.sh <dir with patch.diff, demo_test.go, meta.json>
# Confirms, in a scratch worktree outside /repo and /verif, that the seeded change
#  (1) applies and compiles, (2) passes the whole existing test suite,
#  (3) makes the demonstration fail, and (4) the demonstration passes without it.
# Prints one summary line and exits 0 only if all four hold. The worktree is removed afterwards.
export GOFLAGS=-mod=mod GOPROXY=off GOSUMDB=off GOTOOLCHAIN=local
d="$(cd "$1" && pwd)" || exit 2
wt="$(mktemp -d /tmp/seedverify.XXXXXX)"; rmdir "$wt"
git -C /repo worktree add --detach "$wt" HEAD >/dev/null 2>&1 || { echo "worktree failed"; exit 2; }
trap 'git -C /repo worktree remove --force "$wt" >/dev/null 2>&1; rm -rf "$wt"' EXIT
demodir=$(python3 -c "import json,sys;print(json.load(open('$d/meta.json')).get('demo_dir','.') or '.')" 2>/dev/null || echo .)
tests=$(grep -ohE '^func (Test[A-Za-z0-9_]+)' "$d/demo_test.go" | awk '{print $2}' | paste -sd'|')
[ -z "$tests" ] && { echo "$d: no Test function in demo"; exit 1; }
cd "$wt"
git apply "$d/patch.diff" || { echo "$d: patch does not apply"; exit 1; }
go build ./... || { echo "$d: does not compile"; exit 1; }
if ! go test -vet=off -count=1 -timeout 25m ./... > "$wt/.suite.log" 2>&1; then echo "$d: SUITE FAILS with change"; tail -20 "$wt/.suite.log"; exit 1; fi
cp "$d/demo_test.go" "$wt/$demodir/zz_demo_test.go"
if (cd "$wt/$demodir" && go test -vet=off -count=1 -run "^($tests)\$" . > "$wt/.demo1.log" 2>&1); then echo "$d: demo PASSES with change (expected failure)"; exit 1; fi
grep -q -E '^(--- FAIL|FAIL|panic:)' "$wt/.demo1.log" || { echo "$d: demo did not fail cleanly"; tail "$wt/.demo1.log"; exit 1; }
rm "$wt/$demodir/zz_demo_test.go"; git checkout -- . ; cp "$d/demo_test.go" "$wt/$demodir/zz_demo_test.go"
if ! (cd "$wt/$demodir" && go test -vet=off -count=1 -run "^($tests)\$" . > "$wt/.demo0.log" 2>&1); then echo "$d: demo FAILS without change"; tail "$wt/.demo0.log"; exit 1; fi
echo "$d: CONFIRMED (suite passes with change; demo [$tests] fails with it, passes without)"
exit 0
