#!/usr/bin/env python3
"""Summarises a thorough-tier run (evidence directory given as argv[1]) as a markdown table for DESIGN.md §13.5."""
import json, sys, os
d = sys.argv[1]
rows = ["| id | bounds run / exhausted | paths | queries sent to z3 | cross-checked (disagreements) | wall s | not finished within the budget |", "|---|---|---|---|---|---|---|"]
for i in range(1, 21):
    pid = 'C%02d' % i
    p = os.path.join(d, pid + '.json')
    if not os.path.exists(p):
        rows.append("| %s | (not run) | | | | | |" % pid); continue
    e = json.load(open(p))
    if e.get('tier') != 'thorough':
        rows.append("| %s | (no thorough evidence) | | | | | |" % pid); continue
    c = e['coverage']; b = c['bounds']
    ex = sum(1 for x in b if x.get('exhausted'))
    inc = [x['bound'] for x in b if not x.get('exhausted')]
    names = "; ".join(n[:60] for n in inc[:3]) + (" … (+%d)" % (len(inc) - 3) if len(inc) > 3 else "")
    rows.append("| %s | %d / %d | %s | %s | %s | %.0f | %s |" % (pid, len(b), ex, f"{c['states']:,}", f"{c['queries_sent_to_solver']:,}", "-", e['wall_s'], names or "-"))
print("\n".join(rows))
