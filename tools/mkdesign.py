#!/usr/bin/env python3
"""Regenerates the measured tables of DESIGN.md (§13.5 and §14) from evidence/*.json,
logs/seed/matrix*.txt and seeded/*/meta.json, between the BEGIN/END markers."""
import json, os, re, glob
here = os.path.dirname(os.path.dirname(os.path.abspath(__file__)))

def quick_table():
    rows = ["| id | tier of the committed evidence | bounds run / exhausted | paths (states) | queries (of which sent to z3) | native replays | wall s |",
            "|---|---|---|---|---|---|---|"]
    for i in range(1, 21):
        pid = 'C%02d' % i
        e = json.load(open(os.path.join(here, 'evidence', pid + '.json')))
        c = e['coverage']
        b = c['bounds']
        ex = sum(1 for x in b if x.get('exhausted'))
        rows.append("| %s | %s | %d / %d | %s | %s (%s) | %d | %.0f |" % (
            pid, e['tier'], len(b), ex, f"{c['states']:,}", f"{c['transitions']:,}", f"{c['queries_sent_to_solver']:,}",
            c['traces_validated_against_impl'], e['wall_s']))
    return "\n".join(rows)

def read_matrix(fn):
    m = {}
    p = os.path.join(here, 'logs', 'seed', fn)
    if not os.path.exists(p):
        return m
    for l in open(p):
        f = l.split()
        if len(f) < 6 or not re.match(r'C\d\d[A-F]$', f[0]):
            continue
        rc = int(f[3].split('=')[1])
        clauses = re.findall(r'clause=([^ (]+)', l)
        m.setdefault(f[0], []).append((f[1], f[2], rc, clauses))
    return m

def seeded_table():
    """Every meta.json carries its own detection rows (first run, final run, other checks)."""
    rows = ["| change | what it breaks (needs) | first run (own quick check) | after strengthening | caught by |",
            "|---|---|---|---|---|"]
    for d in sorted(glob.glob(os.path.join(here, 'seeded', 'C*'))):
        name = os.path.basename(d)
        mp = os.path.join(d, 'meta.json')
        if not os.path.exists(mp):
            continue
        meta = json.load(open(mp))
        what = (meta.get('breaks') or '').replace('\n', ' ').replace('|', '/')
        needs = (meta.get('needs_to_manifest') or '').replace('\n', ' ').replace('|', '/')
        if len(what) > 150: what = what[:147] + '...'
        if len(needs) > 120: needs = needs[:117] + '...'
        def verdict(m):
            if not m: return '-'
            return 'caught' if any(v.get('exit') == 1 for v in m.values()) else 'missed'
        first, final, extra = meta.get('detection_first_run') or {}, meta.get('detection_final') or {}, meta.get('detection_other_checks') or {}
        by = []
        for src in (final, extra):
            for k, v in src.items():
                if v.get('exit') == 1:
                    by.append("%s: %s" % (k.replace(':', ' '), ", ".join(sorted(set(v.get('clauses') or []))[:3])))
        rows.append("| %s | %s (%s) | %s | %s | %s |" % (name, what, needs, verdict(first), verdict(final) if verdict(final) != '-' else verdict(first), "; ".join(by) or '-'))
    return "\n".join(rows)

def splice(text, tag, body):
    b, e = "<!-- BEGIN %s -->" % tag, "<!-- END %s -->" % tag
    if b not in text:
        return text
    i, j = text.index(b) + len(b), text.index(e)
    return text[:i] + "\n" + body + "\n" + text[j:]

p = os.path.join(here, 'DESIGN.md')
t = open(p).read()
t = splice(t, 'QUICKTABLE', quick_table())
t = splice(t, 'SEEDTABLE', seeded_table())
open(p, 'w').write(t)
print("DESIGN.md tables regenerated")
