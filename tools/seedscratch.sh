#!/bin/bash
# usage: tools/seedscratch.sh <seeded/NAME> <tier> <ids...>
# Development aid: runs checks against a scratch worktree of /repo with the seeded
# change applied (VERIF_REPO), leaving /repo, evidence/ and replays/ untouched.
cd "$(dirname "$0")/.." || exit 2
s="$1"; tier="$2"; shift 2
name=$(basename "$s")
wt=/tmp/mut-$name
git -C /repo worktree remove --force $wt >/dev/null 2>&1; rm -rf $wt
git -C /repo worktree add --detach $wt HEAD >/dev/null 2>&1 || exit 2
trap 'git -C /repo worktree remove --force $wt >/dev/null 2>&1; rm -rf $wt' EXIT
git -C $wt apply "$PWD/$s/patch.diff" || { echo "$name: apply failed"; exit 2; }
mkdir -p logs/seed
for id in "$@"; do
  log="logs/seed/$name-$id-$tier.log"
  s0=$(date +%s)
  VERIF_REPO=$wt ./check "$id" "$tier" > "$log" 2>&1; rc=$?
  e0=$(date +%s)
  clauses=$(grep -o 'clause=[^ ]*' "$log" | sort | uniq -c | sort -rn | head -4 | awk '{printf "%s(%s) ", $2, $1}')
  echo "$name $id $tier rc=$rc wall=$((e0-s0))s violations=$(grep -c '^VIOLATION' "$log") incomplete=$(grep -c INCOMPLETE "$log") engine=$(grep -c -E 'ENGINE-|LOAD-ERROR' "$log") $clauses"
done
