#!/usr/bin/env python3
"""Writes seeded/<name>/meta.json for the fourth campaign (G, H) from the sub-agent's meta,
the independent confirmation (logs/seed4/verify-*.log) and the detection matrices kept in
seeded/_matrices/round4-*.txt. Older campaigns' meta.json files are left untouched."""
import json, os, re, glob
here = os.path.dirname(os.path.dirname(os.path.abspath(__file__)))
def matrix(fn):
    m = {}
    p = os.path.join(here, 'seeded', '_matrices', fn)
    if not os.path.exists(p): return m
    for l in open(p):
        f = l.split()
        if len(f) < 6 or not re.match(r'C\d\d[A-I]$', f[0]): continue
        rc = int(f[3].split('=')[1]); viol = int(f[5].split('=')[1]); inc = int(f[6].split('=')[1])
        clauses = re.findall(r'clause=([^ (]+)', l)
        m.setdefault(f[0], {})[f[1] + ':' + f[2]] = {'exit': rc, 'violation_lines': viol, 'incomplete_bounds': inc, 'clauses': clauses}
    return m
first, final, extra = matrix('round4-first-run.txt'), matrix('round4-final.txt'), matrix('round4-other-checks.txt')
for fn, m in (('round5-first-run.txt', first), ('round5-final.txt', final), ('round5-other-checks.txt', extra)):
    m.update(matrix(fn))
for d in sorted(glob.glob(os.path.join(here, 'seeded', 'C??[GHI]'))):
    name = os.path.basename(d)
    a = json.load(open(os.path.join(d, 'meta.agent.json')))
    vlog = os.path.join(here, 'logs', 'seed5' if name[3] == 'I' else 'seed4', 'verify-%s.log' % name)
    old = {}
    if os.path.exists(os.path.join(d, 'meta.json')):
        old = json.load(open(os.path.join(d, 'meta.json')))
    confirmed = old.get('confirmed_independently') or (os.path.exists(vlog) and 'CONFIRMED' in open(vlog).read())
    meta = {
        'name': name, 'property': name[:3],
        'breaks': a.get('summary'), 'needs_to_manifest': a.get('needs'), 'witness': a.get('witness'),
        'demo': {'file': 'demo_test.go', 'dir': a.get('demo_dir', '.') or '.'},
        'demo_dir': a.get('demo_dir', '.') or '.',
        'written_by': 'independent sub-agent given only the property text, the list of functions earlier campaigns had used, and a scratch worktree (' + ('fifth, one-change' if name[3] == 'I' else 'fourth') + ' campaign)',
        'rebased': name in ('C02H',), 'campaign': 5 if name[3] == 'I' else 4, 'confirmed_independently': bool(confirmed),
        'what_was_run': [
            'tools/seedverify.sh on the staged change (scratch worktree: patch applies, go build, full test suite passes with the change, demo fails with it and passes without it)',
            'first run: each change against its own property\'s quick check as committed at 9ea9625 (vp run snapshot, scratch worktree through VERIF_REPO), before the changes were looked at; the machine was shared with a thorough-tier run, bounds that ran out of budget are counted in incomplete_bounds',
            'tools/seedmatrix.sh <out> quick seeded/%s  (same check after strengthening)' % name,
        ],
        'detection_first_run': first.get(name, {}), 'detection_final': final.get(name, {}), 'detection_other_checks': extra.get(name, {}),
    }
    json.dump(meta, open(os.path.join(d, 'meta.json'), 'w'), indent=1)
print('ok')
