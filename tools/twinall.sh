#!/bin/sh
# usage: tools/twinall.sh [ids...]  -- vacuity guard for every property (vcheck twin), summary in logs/twin.summary
cd "$(dirname "$0")/.." || exit 2
export GOFLAGS=-mod=mod GOPROXY=off GOSUMDB=off GOTOOLCHAIN=local
ids="$*"; [ -z "$ids" ] && ids="C01 C02 C03 C04 C05 C06 C07 C08 C09 C10 C11 C12 C13 C14 C15 C16 C17 C18 C19 C20"
mkdir -p logs; : > logs/twin.summary
bad=0
for id in $ids; do
  VERIF_DIR="$(pwd -P)" ./bin/vcheck twin $id > logs/twin-$id.log 2>&1; rc=$?
  [ $rc -ne 0 ] && bad=1
  echo "rc=$rc $(tail -1 logs/twin-$id.log)" | tee -a logs/twin.summary
done
exit $bad
