#!/usr/bin/env python3
"""Writes seeded/<name>/meta.json from the sub-agent's meta, the independent confirmation
(tools/seedverify.sh logs) and the detection matrices (logs/seed/matrix*.txt)."""
import json, os, re, glob
here = os.path.dirname(os.path.dirname(os.path.abspath(__file__)))
def matrix(fn):
    m = {}
    p = os.path.join(here, 'logs', 'seed', fn)
    if not os.path.exists(p): return m
    for l in open(p):
        f = l.split()
        if len(f) < 5 or not re.match(r'C\d\d[A-F]$', f[0]): continue
        rc = int(f[3].split('=')[1]); viol = int(f[5].split('=')[1])
        clauses = re.findall(r'clause=([^ ]+)', l)
        m.setdefault(f[0], {})[f[1] + ':' + f[2]] = {'exit': rc, 'violation_lines': viol, 'clauses': clauses}
    return m
first = matrix('matrix-quick.txt'); first.update(matrix('matrix-r2-first.txt')); first.update(matrix('matrix-r3-first.txt'))
final = matrix('matrix-final.txt'); final.update(matrix('matrix-r3-final.txt'))
extra = matrix('matrix-extra.txt')
for d in sorted(glob.glob(os.path.join(here, 'seeded', 'C*'))):
    name = os.path.basename(d)
    a = json.load(open(os.path.join(d, 'meta.agent.json')))
    vlog = os.path.join(here, 'logs', 'seed', 'verify-%s-%s.log' % (name[:3], name[3]))
    confirmed = os.path.exists(vlog) and 'CONFIRMED' in open(vlog).read()
    meta = {
        'name': name,
        'property': name[:3],
        'breaks': a.get('summary'),
        'needs_to_manifest': a.get('needs'),
        'witness': a.get('witness'),
        'demo': {'file': 'demo_test.go', 'dir': a.get('demo_dir', '.') or '.'},
        'written_by': 'independent sub-agent given only the property text and a scratch worktree' + ('' if name[3] in 'AB' else ' (second campaign; told which functions the first campaign had already used)'),
        'rebased': name in ('C11D', 'C20C', 'C04F'),
        'campaign': {'A': 1, 'B': 1, 'C': 2, 'D': 2, 'E': 3, 'F': 3}[name[3]],
        'confirmed_independently': confirmed,
        'what_was_run': [
            'tools/seedverify.sh seeded/%s  (scratch worktree: patch applies, go build, full test suite passes with the change, demo fails with it and passes without it)' % name,
            ('tools/seedrun.sh seeded/%s quick %s  (git -C /repo apply, ./check, git -C /repo checkout -- .) before strengthening' if name[3] in 'AB' else 'tools/seedscratch.sh seeded/%s quick %s  (first run, against the checks as committed before this change was looked at)') % (name, name[:3]),
            'tools/seedscratch.sh seeded/%s quick %s  (same check against a scratch worktree via VERIF_REPO) after strengthening' % (name, name[:3]),
        ],
        'detection_first_run': first.get(name, {}),
        'detection_final': final.get(name, {}),
        'detection_other_checks': extra.get(name, {}),
    }
    json.dump(meta, open(os.path.join(d, 'meta.json'), 'w'), indent=1)
print('ok')
