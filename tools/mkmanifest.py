#!/usr/bin/env python3
"""Regenerates /verif/MANIFEST.json from the table below."""
import json, os
here = os.path.dirname(os.path.dirname(os.path.abspath(__file__)))
ids = [json.loads(l)['id'] for l in open(os.path.join(here, 'properties.jsonl'))]

NOTE = ("Trusted base: go/packages+go/ssa lowering (x/tools v0.29.0); the symgo interpreter in /verif/engine "
        "(validated on every run: sampled paths are replayed against the natively compiled /repo and digests compared); "
        "the summaries listed in DESIGN.md §2.4; z3 4.8.12 (unknown never counted as unsat); the harness oracle in "
        "/verif/harness. Everything beyond the stated bounds is outside the claim.")
TECH = "bounded symbolic execution of the real code (go/ssa -> concolic interpreter -> QF_BV queries decided by z3), counterexamples replayed natively"

claimed = {
 'C01': ("Every path of in-memory Parse and of the streaming parser (one-shot reader, every read schedule for short inputs, every two-read cut for templates) over all byte strings up to the bound and CRLF / bare-CR / NUL templates is explored; tiling, offsets, line numbers, Source content, aliasing and no-write are asserted on each (the caller's buffer, including spare capacity behind a sub-slice, must stay untouched with or without NUL); the solver decides every branch and assertion.", "§C01"),
 'C02': ("All paths of Parse over the bounded inputs; span validity/nesting/order/UTF-8-boundary clauses asserted for every node; solver-decided.", "§C02"),
 'C03': ("All paths of Parse over the bounded inputs; per-byte leaf cover asserted (no duplication; no letter/digit/non-ASCII byte lost).", "§C03"),
 'C05': ("All paths of Parse (and streaming+Extract+Rewrite) over the bounded inputs and templates; node grammar (recursively: phrasing content inside emphasis and links, link parts only under links/images, verbatim leaves in code/HTML blocks) and accessor ranges asserted for every node.", "§C05"),
 'C13': ("All paths of Parse over the bounded inputs; the construct shape table is evaluated on the symbolic source bytes of every node's span.", "§C13"),
}
claimed['C15'] = ("Unit-level: every path of the five line recognisers over all lines up to the bound, all 256 bytes for the classifiers, NormalizeURI and IsEmailAddress over all short byte strings; each compared with a reference transcribed from the spec text; solver-decided.", "§C15")
claimed['C04'] = ("Every path of Parse, streaming NextBlock+Rewrite, Render under 18 configurations, Walk and format.Format over the bounded inputs and the end-of-input / nesting templates is explored; a panic or a step-budget exhaustion on any feasible path is a violation; error values asserted.", "§C04")
claimed['C07'] = ("All paths of Parse+Render (IgnoreRaw, and raw-free documents) over the bounded inputs and one template per attribute-emission site; a strict tokenizer over the symbolic output asserts vocabulary, nesting, quoting and escaping (named character references must be exact HTML entities); wide and deep documents (300 children, 70 levels); solver-decided.", "§C07")
claimed['C10'] = ("All paths of Parse+Render in 36 configurations over the bounded inputs and templates; output compared byte-for-byte (solver query per comparison) with an independent reference renderer; determinism, purity (frozen heap) and the join rule asserted, the latter also on 100-paragraph documents whose output crosses 4 KiB; one renderer value reused across documents and reconfigured between calls; wide and deep documents.", "§C10")
claimed['C17'] = ("All paths of Parse+Render with and without each of 5 predicates over HTML templates with symbolic holes (incl. TAB, LF, CR, FF) and short unconstrained inputs; alignment and WHATWG-tokenizer clauses asserted on the symbolic output; the nine GFM names in every letter case.", "§C17")
claimed['C08'] = ("All paths of the streaming parser under a symbolic read schedule (chunk sizes, empty reads, EOF-with-data are solver variables) and a symbolic fault point, over the bounded inputs, plus 8 KiB-boundary inputs (NUL runs, long lines) with solver-chosen read sizes; compared with in-memory Parse by deep equality; error persistence asserted against a reader that reports its fault only once and then delivers more data.", "§C08")
claimed['C09'] = ("All paths of Parse+Render on D and on its quoted ('> ' and, for D without space-initial lines, bare '>') / list-indented form (marker and width are solver variables) over the bounded inputs, multi-line templates and a 989-character multi-line label; single-root and HTML-relation clauses on symbolic outputs.", "§C09")
claimed['C14'] = ("All paths of Parse+Render on x and its CRLF/CR/padded/newline-terminated variants over the bounded inputs and templates; equality of outputs/positions decided by the solver.", "§C14")
claimed['C16'] = ("All paths of stream-parsing the bounded inputs/templates and re-parsing each root block's Source alone; single block, identical tree and zero position asserted.", "§C16")
claimed['C11'] = ("Every sequence of units up to the bound is explored (classes enumerated through the solver, bytes within a class symbolic); the rendered emphasis structure is compared with a transcription of the spec's delimiter-run algorithm; one unit class is an arbitrary (symbolic) character of U+0080..U+00FF. Unit level: processEmphasis is run from every directly constructed delimiter stack of up to 4 entries (5-6 in restricted menus) with symbolic can-open/can-close flags and compared with the same reference.", "§C11")
claimed['C12'] = ("All label pairs over a 13-member alphabet up to the bound in all four reference forms (shortcut, collapsed, full, image), all orders/placements of competing definitions (separate root blocks and different nesting depths inside one container), multi-line labels inside containers, two definitions on adjacent lines of one paragraph in LF/CRLF/bare-CR spelling, and closure clauses over bounded inputs and link templates; resolution compared with a reference normaliser.", "§C12")
claimed['C18'] = ("All callback policies (every Pre/Post return value and nil-ness is a solver variable) over six real trees, virtual roots and all virtual tree shapes up to the bound, plus wide (66-700 children) and deep (70-300 levels) real trees with the position of one false-returning callback a solver variable (a menu of 8 positions for the largest); the event trace is checked against a recursive reference walker.", "§C18")
claimed['C06'] = ("Every abstract document within the node budget, with every spelling choice of the canonical serialiser (markers, fences, indentation, tab spellings of block quote markers, LF/CRLF) a solver variable and symbolic letters/punctuation/code bytes; rendered HTML compared with the HTML computed from the abstract document; plus arithmetic oracles for the tab/column rule behind five container prefixes and for a tab after a list marker behind six, explicit tight/loose oracles (two-item lists; looseness across nesting levels), escaped punctuation in every escape-processing context (titles, link text, info strings, headings, destinations), trailing blank lines of indented code and verbatim code content (leading TAB included) inside containers.", "§C06")
claimed['C19'] = ("Reduction: non-interference. The premise (no call writes to pre-existing state) is established by bounded symbolic execution with the whole heap frozen, for every input in the bound; interleavings are not explored. Overlap is additionally probed sequentially: a walk and a render started from inside a callback of another walk/render of the same tree must leave it undisturbed, and a Format call that follows a failed one must equal the first.", "§C19")
claimed['C20'] = ("All paths of Parse+Format over the bounded inputs with healthy and failing writers (failure point a solver variable); canonical documents within the node budget, ordered items of every marker width, fenced code with fence-like content lines, escaped punctuation at line starts inside containers: HTML preserved and Format idempotent; a healthy call after a failed one gives the same bytes; three structural matrices (tight items holding a second block, inline constructs continuing on the next line inside containers, loose lists after another block).", "§C20")
levels = {'C19': 'other'}
reasons = {}

checks = []
for i in ids:
    if i in claimed:
        text, ref = claimed[i]
        checks.append({
            "property_id": i,
            "quick_cmd": "./check %s quick" % i,
            "thorough_cmd": "./check %s thorough" % i,
            "evidence_file": "/verif/evidence/%s.json" % i,
            "replay_cmd_template": "./bin/vcheck replay {path}",
            "engine": "symgo",
            "level_claimed": {"category": levels.get(i, "model_checking") if "levels" in globals() else "model_checking", "text": text, "design_ref": ref},
            "level_note": NOTE,
            "technique": TECH,
        })
na = [{"property_id": i, "reason": reasons.get(i, "check not built yet (in progress); will be claimed once its bound has run clean on the unchanged tree")} for i in ids if i not in claimed]
m = {
 "version": 1,
 "setup_cmd": "cd engine && GOFLAGS=-mod=mod GOPROXY=off GOSUMDB=off GOTOOLCHAIN=local go build -o ../bin/vcheck ./cmd/vcheck && cd .. && ./bin/vcheck selftest",
 "hooks": {"guard": "verif",
           "enable": "harness files under /verif/harness carry //go:build verif and are injected into the package by go/packages Overlay (symbolic run) and by go test -tags verif -overlay (native replay); /repo itself contains no hook code",
           "baseline_off_cmd": "cd /repo && GOFLAGS=-mod=mod go test -vet=off -count=1 -timeout 25m ./...",
           "source_commits": [], "add_only": True},
 "engines": [{"name": "symgo", "path": "/verif/engine", "serves_properties": sorted(claimed),
              "kind_free_text": "concolic symbolic executor for go/ssa written for this task: interprets the SSA of /repo's working tree with symbolic input bytes, generational path search, every branch/assertion decided by z3 (QF_BV); native replay of counterexamples and of sampled paths"}],
 "checks": checks,
 "notes": "see DESIGN.md (sections 13-14 for the as-built state and the seeded-change campaign); known findings and fixed defects are listed in known_findings.txt; setup_cmd also runs `vcheck selftest` (652 spec examples: interpreter vs native build); `./bin/vcheck twin <id>` is the vacuity guard",
 "not_applicable": na,
}
json.dump(m, open(os.path.join(here, 'MANIFEST.json'), 'w'), indent=1)
print("claimed:", sorted(claimed))
