#!/bin/sh
# usage: tools/runall.sh [quick|thorough] [ids...]
# Runs checks sequentially. Logs go to /verif/logs (NOT work/, which every vcheck run empties on exit).
# Exit status: 0 only if every check exited 0.
cd "$(dirname "$0")/.." || exit 2
tier="${1:-quick}"; [ $# -gt 0 ] && shift
ids="$*"; [ -z "$ids" ] && ids="C01 C02 C03 C04 C05 C06 C07 C08 C09 C10 C11 C12 C13 C14 C15 C16 C17 C18 C19 C20"
mkdir -p logs || exit 2
sum="logs/runall-$tier.summary"; : > "$sum" || exit 2
bad=0
for id in $ids; do
  log="logs/$id-$tier.log"
  s=$(date +%s)
  ./check "$id" "$tier" > "$log" 2>&1; rc=$?
  e=$(date +%s)
  [ $rc -ne 0 ] && bad=1
  echo "$id $tier rc=$rc wall=$((e-s))s violations=$(grep -c '^VIOLATION' "$log") known=$(grep -c '^KNOWN-FINDING' "$log") incomplete=$(grep -c INCOMPLETE "$log") engine=$(grep -c -E 'ENGINE-|LOAD-ERROR' "$log")" | tee -a "$sum"
done
exit $bad
