#!/bin/bash
# usage: tools/seedrun.sh <seeded/NAME> <tier> <ids...>
# Applies the seeded change to /repo, runs the given checks, and ALWAYS undoes it afterwards.
# Evidence/replay files written during the run are discarded (they describe a mutated tree).
cd "$(dirname "$0")/.." || exit 2
s="$1"; tier="$2"; shift 2
name=$(basename "$s")
[ -n "$(git -C /repo status --porcelain)" ] && { echo "/repo not clean"; exit 2; }
git -C /repo apply "$PWD/$s/patch.diff" || { echo "apply failed"; exit 2; }
trap 'git -C /repo checkout -- . ; git -C /verif checkout -- evidence ; git -C /verif clean -fdq replays evidence' EXIT
mkdir -p logs/seed
for id in "$@"; do
  log="logs/seed/$name-$id-$tier.log"
  s0=$(date +%s)
  ./check "$id" "$tier" > "$log" 2>&1; rc=$?
  e0=$(date +%s)
  clauses=$(grep -o 'clause=[^ ]*' "$log" | sort | uniq -c | sort -rn | head -4 | awk '{printf "%s(%s) ", $2, $1}')
  echo "$name $id $tier rc=$rc wall=$((e0-s0))s violations=$(grep -c '^VIOLATION' "$log") engine=$(grep -c -E 'ENGINE-|LOAD-ERROR' "$log") $clauses"
done
