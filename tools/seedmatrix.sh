#!/bin/bash
# usage: tools/seedmatrix.sh <out-file> <tier> <seeded/NAME>...
# Runs each named seeded change against its own property's check, one after the other,
# each in a scratch worktree of /repo (VERIF_REPO), and appends one line per change to
# <out-file>. /repo, evidence/ and replays/ stay untouched; worktrees are removed.
cd "$(dirname "$0")/.." || exit 2
out="$1"; tier="$2"; shift 2
mkdir -p logs/seed; : > "$out"
for s in "$@"; do
  name=$(basename "$s"); id=${name:0:3}
  wt=/tmp/mutm-$name
  git -C /repo worktree remove --force $wt >/dev/null 2>&1; rm -rf $wt
  git -C /repo worktree add --detach $wt HEAD >/dev/null 2>&1 || { echo "$name worktree failed" >> "$out"; continue; }
  if ! git -C $wt apply "$PWD/$s/patch.diff"; then echo "$name apply failed" >> "$out"; git -C /repo worktree remove --force $wt; continue; fi
  log="logs/seed/$name-$id-$tier.log"
  s0=$(date +%s)
  VERIF_REPO=$wt ./check $id $tier > "$log" 2>&1; rc=$?
  e0=$(date +%s)
  clauses=$(grep -o 'clause=[^ ]*' "$log" | sort | uniq -c | sort -rn | head -4 | awk '{printf "%s(%s) ", $2, $1}')
  echo "$name $id $tier rc=$rc wall=$((e0-s0))s violations=$(grep -c '^VIOLATION' "$log") incomplete=$(grep -c INCOMPLETE "$log") engine=$(grep -c -E 'ENGINE-|LOAD-ERROR' "$log") $clauses" >> "$out"
  git -C /repo worktree remove --force $wt >/dev/null 2>&1; rm -rf $wt
done
echo DONE >> "$out"
